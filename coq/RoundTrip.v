(* RoundTrip.v — the string-level route compiler (Pattern.compile_dyn + RxParse.parse_rx) agrees with the
   grammar-level one (Pat.parse_pat, Pat.pat_rx, PatTable.route_of) on a printable fragment of patterns.

   Fragment.
     sre    simple regexes of variables: a list of pieces (atom, operator); atoms: an alphanumeric literal, \d, \w,
            ".", a class [..] / [^..] of single characters and ranges lo-hi; operators: none, "*", "+", "?".
            [show_sre] prints, [sre_rx] is exactly the tree RxParse builds (right-nested Cat closed by Eps).
     ppat   required items and nested optional levels; an item is a literal character (alphanumeric, / - _ .) or a
            variable [PVar name (VRe e)] = {name:regex} or [PVar name VDef] = {name} (global variables all/any/num,
            otherwise [^/]+). [show_ppat] prints "[" before every level and all "]" at the end; [to_pat] is the
            grammar-level AST (adjacent literal characters merged into one Lit).
     well-formedness ([ppat_wf], executable: [printable]): the text starts with "/", names are non-empty
            alphanumeric, user-written classes list alphanumerics only, at most one variable per path segment
            ([seg_ok]); for the regex link also: distinct variable names and at least one variable or optional level.
   Results (all closed under the global context).
     parse_show_sre      parse_rx (show_sre e) = POk (sre_rx e, 0)                                   (a)
     all_vars_show       all_vars (show_ppat p) = the printed variables in order                      (b)
     parse_pat_show      parse_pat (show_ppat p) = Some (to_pat p)                                    (b)
     compile_dyn_show / compile_dyn_retext   compile_dyn (show_ppat p) = Ok (dyn_of p): names, start, first, regex text  (c)
     parse_retext, prx_req, compile_re_dyn_of, roundtrip, route_link, roundtrip_printable              (d) *)
From Coq Require String.
From Rux Require Import Base BaseFacts Str Consts Rx RxFacts RxParse Pattern Pat PatFacts Table PatTable.

Local Open Scope N_scope.

(* ================================================================================================ *)
(* 0. characters                                                                                      *)
(* ================================================================================================ *)

Definition is_alnum (c : ch) : bool := is_digit c || is_alpha c.
(* literal characters of printable patterns: alphanumerics and / - _ . *)
Definition is_safe (c : ch) : bool := is_alnum c || N.eqb c 47 || N.eqb c 45 || N.eqb c 95 || N.eqb c 46.

Ltac uc := unfold c_lpar, c_rpar, c_star, c_plus, c_comma, c_minus, c_dot, c_colon, c_quest, c_lbrk, c_bsl,
  c_rbrk, c_caret, c_lbrc, c_bar, c_rbrc, c_dollar, slash, dot, lbrace, rbrace, lbrack, rbrack, colon, bslash in *.

Lemma alnum_cases c : is_alnum c = true -> (48 <= c <= 57 \/ 65 <= c <= 90 \/ 97 <= c <= 122).
Proof. unfold is_alnum, is_digit, is_alpha. rewrite !orb_true_iff, !andb_true_iff, !N.leb_le. lia. Qed.

Lemma safe_cases c : is_safe c = true ->
  (48 <= c <= 57 \/ 65 <= c <= 90 \/ 97 <= c <= 122 \/ c = 47 \/ c = 45 \/ c = 95 \/ c = 46).
Proof.
  unfold is_safe. rewrite !orb_true_iff, !N.eqb_eq. intros [[[[H|H]|H]|H]|H]; try lia.
  apply alnum_cases in H. lia.
Qed.

Lemma eqb_ne a b : a <> b -> N.eqb a b = false.
Proof. apply N.eqb_neq. Qed.

(* rewrite every decidable comparison of characters that linear arithmetic settles *)
Ltac ceq :=
  repeat match goal with
  | |- context[N.eqb ?a ?b] => first [ rewrite (eqb_ne a b) by (uc; lia) | rewrite (proj2 (N.eqb_eq a b)) by (uc; lia) ]
  end.

(* ================================================================================================ *)
(* 1. regex equivalence up to the matcher                                                             *)
(* ================================================================================================ *)

Definition req (r1 r2 : rx) : Prop :=
  forall A s c (k : str -> caps -> option A), bt r1 s c k = bt r2 s c k.

Lemma req_refl r : req r r.
Proof. intros A s c k. reflexivity. Qed.
Lemma req_sym r1 r2 : req r1 r2 -> req r2 r1.
Proof. intros H A s c k. symmetry. apply H. Qed.
Lemma req_trans r1 r2 r3 : req r1 r2 -> req r2 r3 -> req r1 r3.
Proof. intros H1 H2 A s c k. rewrite H1. apply H2. Qed.

(* the matcher only depends on the extension of its continuation *)
Lemma bt_ext {A} : forall r s c (k1 k2 : str -> caps -> option A),
  (forall s' c', k1 s' c' = k2 s' c') -> bt r s c k1 = bt r s c k2.
Proof.
  induction r as [| x | | neg rs | a IHa b IHb | a IHa b IHb | a IHa | i a IHa]; intros s c k1 k2 E; cbn [bt].
  - apply E.
  - destruct s as [|y s']; [reflexivity|]. destruct (N.eqb x y); [apply E|reflexivity].
  - destruct s as [|y s']; [reflexivity|]. destruct (N.eqb y 10); [reflexivity|apply E].
  - destruct s as [|y s']; [reflexivity|]. destruct (xorb neg (in_cls rs y)); [apply E|reflexivity].
  - apply IHa. intros s' c'. apply IHb. exact E.
  - rewrite (IHa s c k1 k2 E), (IHb s c k1 k2 E). reflexivity.
  - fold (star_loop a k1). fold (star_loop a k2).
    generalize (List.length s) as n. intros n. revert s c.
    induction n as [|n IHn]; intros s c; cbn [star_loop].
    + apply E.
    + fold (star_loop a k1). fold (star_loop a k2).
      rewrite (IHa s c _ (fun s' c' => if Nat.ltb (List.length s') (List.length s) then star_loop a k2 n s' c' else None)).
      * rewrite E. reflexivity.
      * intros s' c'. destruct (Nat.ltb _ _); [apply IHn|reflexivity].
  - apply IHa. intros s' c'. apply E.
Qed.

Lemma req_cat a a' b b' : req a a' -> req b b' -> req (Cat a b) (Cat a' b').
Proof.
  intros Ha Hb A s c k. cbn [bt]. rewrite Ha. apply bt_ext. intros s' c'. apply Hb.
Qed.
Lemma req_alt a a' b b' : req a a' -> req b b' -> req (Alt a b) (Alt a' b').
Proof. intros Ha Hb A s c k. cbn [bt]. rewrite Ha, Hb. reflexivity. Qed.
Lemma req_grp i a a' : req a a' -> req (Grp i a) (Grp i a').
Proof. intros Ha A s c k. cbn [bt]. apply Ha. Qed.
Lemma req_star a a' : req a a' -> req (Star a) (Star a').
Proof.
  intros Ha A s c k. rewrite !bt_star_unfold. generalize (List.length s) as n. intros n. revert s c.
  induction n as [|n IHn]; intros s c; cbn [star_loop]; [reflexivity|].
  fold (star_loop a k). fold (star_loop a' k). rewrite Ha.
  rewrite (bt_ext a' s c _ (fun s' c' => if Nat.ltb (List.length s') (List.length s) then star_loop a' k n s' c' else None)).
  - reflexivity.
  - intros s' c'. destruct (Nat.ltb _ _); [apply IHn|reflexivity].
Qed.
Lemma req_opt a a' : req a a' -> req (Opt a) (Opt a').
Proof. intros H. apply req_alt; [exact H|apply req_refl]. Qed.
Lemma req_plus a a' : req a a' -> req (Plus a) (Plus a').
Proof. intros H. apply req_cat; [exact H|apply req_star; exact H]. Qed.

Lemma req_cat_assoc a b c0 : req (Cat (Cat a b) c0) (Cat a (Cat b c0)).
Proof. intros A s c k. reflexivity. Qed.
Lemma req_cat_eps_l a : req (Cat Eps a) a.
Proof. intros A s c k. reflexivity. Qed.
Lemma req_cat_eps_r a : req (Cat a Eps) a.
Proof. intros A s c k. cbn [bt]. apply bt_ext. reflexivity. Qed.

Lemma req_full r1 r2 : req r1 r2 -> forall s, full r1 s = full r2 s.
Proof. intros H s. unfold full. apply H. Qed.
Lemma req_matches r1 r2 : req r1 r2 -> forall s, matches r1 s = matches r2 s.
Proof. intros H s. unfold matches. rewrite (req_full _ _ H). reflexivity. Qed.

(* ================================================================================================ *)
(* 2. the parser: unfolding equations and fuel-monotone combinator lemmas                             *)
(* ================================================================================================ *)

Lemma p_alt_S f s g : p_alt (S f) s g =
    match p_cat f s g with
    | POk (a, s1, g1) =>
        match s1 with
        | c :: s2 => if N.eqb c c_bar
                     then match p_alt f s2 g1 with
                          | POk (b, s3, g2) => POk (Alt a b, s3, g2)
                          | PReject => PReject | PUnsup => PUnsup
                          end
                     else POk (a, s1, g1)
        | [] => POk (a, [], g1)
        end
    | PReject => PReject | PUnsup => PUnsup
    end.
Proof. reflexivity. Qed.

Lemma p_cat_S f s g : p_cat (S f) s g =
    match s with
    | [] => POk (Eps, [], g)
    | c :: _ =>
        if N.eqb c c_bar || N.eqb c c_rpar then POk (Eps, s, g) else
        match p_rep f s g with
        | POk (a, s1, g1) =>
            match p_cat f s1 g1 with
            | POk (b, s2, g2) => POk (Cat a b, s2, g2)
            | PReject => PReject | PUnsup => PUnsup
            end
        | PReject => PReject | PUnsup => PUnsup
        end
    end.
Proof. reflexivity. Qed.

Lemma p_rep_S f s g : p_rep (S f) s g =
    match p_atom f s g with
    | POk (a, s1, g1) =>
        match s1 with
        | c :: s2 =>
            if N.eqb c c_star then (if is_rep_op s2 then PUnsup else POk (Star a, s2, g1)) else
            if N.eqb c c_plus then (if is_rep_op s2 then PUnsup else POk (Plus a, s2, g1)) else
            if N.eqb c c_quest then (if is_rep_op s2 then PUnsup else POk (Opt a, s2, g1)) else
            if N.eqb c c_lbrc then
              match p_bounds s2 with
              | Some (m, on, open, s3) =>
                  if is_rep_op s3 then PUnsup else
                  match on with
                  | Some n => if Nat.ltb n m then PReject
                              else if Nat.ltb 1000%nat n then PReject
                              else if Nat.ltb rep_limit n then PUnsup
                              else POk (Rep a m n, s3, g1)
                  | None => if Nat.ltb 1000%nat m then PReject
                            else if Nat.ltb rep_limit m then PUnsup
                            else POk (RepMin a m, s3, g1)
                  end
              | None => POk (a, s1, g1)
              end
            else POk (a, s1, g1)
        | [] => POk (a, [], g1)
        end
    | PReject => PReject | PUnsup => PUnsup
    end.
Proof. reflexivity. Qed.

Lemma p_atom_S f s g : p_atom (S f) s g =
    match s with
    | [] => PReject
    | c :: s1 =>
      if N.eqb c c_lpar then
        match s1 with
        | q :: s2 =>
            if N.eqb q c_quest then
              match s2 with
              | k :: s3 => if N.eqb k c_colon then
                             match p_alt f s3 g with
                             | POk (a, r :: s4, g1) => if N.eqb r c_rpar then POk (a, s4, g1) else PReject
                             | POk (_, [], _) => PReject
                             | PReject => PReject | PUnsup => PUnsup
                             end
                           else PUnsup
              | [] => PReject
              end
            else
              match p_alt f s1 (S g) with
              | POk (a, r :: s4, g1) => if N.eqb r c_rpar then POk (Grp g a, s4, g1) else PReject
              | POk (_, [], _) => PReject
              | PReject => PReject | PUnsup => PUnsup
              end
        | [] => PReject
        end
      else if N.eqb c c_rpar then PReject
      else if N.eqb c c_lbrk then
        match s1 with
        | n :: s2 =>
            let '(neg, body) := if N.eqb n c_caret then (true, s2) else (false, s1) in
            match body with
            | b :: _ => if N.eqb b c_rbrk then PUnsup else
                        match p_class f body [] with
                        | POk (rs, rest) => POk (Cls neg rs, rest, g)
                        | PReject => PReject | PUnsup => PUnsup
                        end
            | [] => PReject
            end
        | [] => PReject
        end
      else if N.eqb c c_bsl then
        match s1 with
        | e :: s2 => match esc_atom e with POk a => POk (a, s2, g) | PReject => PReject | PUnsup => PUnsup end
        | [] => PReject
        end
      else if N.eqb c c_dot then POk (AnyNL, s1, g)
      else if N.eqb c c_star || N.eqb c c_plus || N.eqb c c_quest then PReject
      else if N.eqb c c_caret || N.eqb c c_dollar then PUnsup
      else if N.eqb c c_lbrc then
        match p_bounds s1 with Some _ => PReject | None => POk (Chr c, s1, g) end
      else POk (Chr c, s1, g)
    end.
Proof. reflexivity. Qed.

(* [ok P n s g r]: the parser function P returns r on (s, g) with every fuel >= n *)
Definition ok (P : nat -> str -> nat -> pres (rx * str * nat)) (n : nat) (s : str) (g : nat) (r : rx * str * nat) : Prop :=
  forall f, (n <= f)%nat -> P f s g = POk r.

Lemma ok_mono P n m s g r : ok P n s g r -> (n <= m)%nat -> ok P m s g r.
Proof. intros H L f Hf. apply H. lia. Qed.

(* the next character does not start a repetition operator *)
Definition nop (s : str) : bool :=
  match s with
  | [] => true
  | c :: _ => negb (N.eqb c c_star || N.eqb c c_plus || N.eqb c c_quest || N.eqb c c_lbrc)
  end.
(* a concatenation stops here *)
Definition cat_stop (s : str) : bool :=
  match s with [] => true | c :: _ => N.eqb c c_bar || N.eqb c c_rpar end.
(* an alternation stops here *)
Definition alt_stop (s : str) : bool :=
  match s with [] => true | c :: _ => N.eqb c c_rpar end.

Lemma nop_not_rep s : nop s = true -> is_rep_op s = false.
Proof.
  destruct s as [|c r]; [reflexivity|]. cbn [nop is_rep_op]. intros H. apply negb_true_iff in H.
  rewrite !orb_false_iff in H. destruct H as [[[H1 H2] H3] H4]. rewrite H1, H2, H3, H4. reflexivity.
Qed.

Lemma cat_ok_stop s g : cat_stop s = true -> ok p_cat 1 s g (Eps, s, g).
Proof.
  intros H f Hf. destruct f as [|f]; [lia|]. rewrite p_cat_S.
  destruct s as [|c r]; [reflexivity|]. cbn [cat_stop] in H. rewrite H. reflexivity.
Qed.

Lemma cat_ok_cons n1 n2 s g a s1 g1 b s2 g2 :
  cat_stop s = false -> ok p_rep n1 s g (a, s1, g1) -> ok p_cat n2 s1 g1 (b, s2, g2) ->
  ok p_cat (S (Nat.max n1 n2)) s g (Cat a b, s2, g2).
Proof.
  intros Hs Hr Hc f Hf. destruct f as [|f]; [lia|]. rewrite p_cat_S.
  destruct s as [|c r]; [discriminate|]. cbn [cat_stop] in Hs. rewrite Hs.
  rewrite Hr by lia. rewrite Hc by lia. reflexivity.
Qed.

Lemma alt_ok_cat n s g a s1 g1 :
  ok p_cat n s g (a, s1, g1) -> alt_stop s1 = true -> ok p_alt (S n) s g (a, s1, g1).
Proof.
  intros Hc Hs f Hf. destruct f as [|f]; [lia|]. rewrite p_alt_S. rewrite Hc by lia.
  destruct s1 as [|c r]; [reflexivity|]. cbn [alt_stop] in Hs.
  replace (N.eqb c c_bar) with false; [reflexivity|].
  symmetry. apply N.eqb_eq in Hs. subst c. reflexivity.
Qed.

(* no operator after the atom *)
Lemma rep_ok_none n s g a s1 g1 :
  ok p_atom n s g (a, s1, g1) -> nop s1 = true -> ok p_rep (S n) s g (a, s1, g1).
Proof.
  intros Ha Hs f Hf. destruct f as [|f]; [lia|]. rewrite p_rep_S. rewrite Ha by lia.
  destruct s1 as [|c r]; [reflexivity|]. cbn [nop] in Hs. apply negb_true_iff in Hs.
  rewrite !orb_false_iff in Hs. destruct Hs as [[[H1 H2] H3] H4]. rewrite H1, H2, H3, H4. reflexivity.
Qed.
Lemma rep_ok_star n s g a s2 g1 :
  ok p_atom n s g (a, c_star :: s2, g1) -> nop s2 = true -> ok p_rep (S n) s g (Star a, s2, g1).
Proof.
  intros Ha Hs f Hf. destruct f as [|f]; [lia|]. rewrite p_rep_S. rewrite Ha by lia.
  rewrite N.eqb_refl. rewrite (nop_not_rep _ Hs). reflexivity.
Qed.
Lemma rep_ok_plus n s g a s2 g1 :
  ok p_atom n s g (a, c_plus :: s2, g1) -> nop s2 = true -> ok p_rep (S n) s g (Plus a, s2, g1).
Proof.
  intros Ha Hs f Hf. destruct f as [|f]; [lia|]. rewrite p_rep_S. rewrite Ha by lia.
  change (N.eqb c_plus c_star) with false. rewrite N.eqb_refl. rewrite (nop_not_rep _ Hs). reflexivity.
Qed.
Lemma rep_ok_quest n s g a s2 g1 :
  ok p_atom n s g (a, c_quest :: s2, g1) -> nop s2 = true -> ok p_rep (S n) s g (Opt a, s2, g1).
Proof.
  intros Ha Hs f Hf. destruct f as [|f]; [lia|]. rewrite p_rep_S. rewrite Ha by lia.
  change (N.eqb c_quest c_star) with false. change (N.eqb c_quest c_plus) with false.
  rewrite N.eqb_refl. rewrite (nop_not_rep _ Hs). reflexivity.
Qed.

(* groups *)
Lemma atom_ok_ncgrp n s3 g a s4 g1 :
  ok p_alt n s3 g (a, c_rpar :: s4, g1) -> ok p_atom (S n) (c_lpar :: c_quest :: c_colon :: s3) g (a, s4, g1).
Proof.
  intros Ha f Hf. destruct f as [|f]; [lia|]. rewrite p_atom_S. rewrite !N.eqb_refl.
  rewrite Ha by lia. rewrite N.eqb_refl. reflexivity.
Qed.
Lemma atom_ok_grp n s1 g a s4 g1 :
  ok p_alt n s1 (S g) (a, c_rpar :: s4, g1) -> match s1 with c :: _ => N.eqb c c_quest = false | [] => False end ->
  ok p_atom (S n) (c_lpar :: s1) g (Grp g a, s4, g1).
Proof.
  intros Ha Hq f Hf. destruct f as [|f]; [lia|]. rewrite p_atom_S. rewrite N.eqb_refl.
  destruct s1 as [|q s2]; [contradiction|]. rewrite Hq.
  rewrite Ha by lia. rewrite N.eqb_refl. reflexivity.
Qed.

(* a plain character *)
Definition plain (c : ch) : bool :=
  negb (existsb (N.eqb c) [c_lpar; c_rpar; c_lbrk; c_bsl; c_dot; c_star; c_plus; c_quest; c_caret; c_dollar; c_lbrc]).
Lemma atom_ok_chr c s1 g : plain c = true -> ok p_atom 1 (c :: s1) g (Chr c, s1, g).
Proof.
  intros H f Hf. destruct f as [|f]; [lia|]. rewrite p_atom_S.
  unfold plain in H. apply negb_true_iff in H. cbn [existsb] in H. rewrite !orb_false_iff in H.
  destruct H as (H1 & H2 & H3 & H4 & H5 & H6 & H7 & H8 & H9 & H10 & H11 & _).
  rewrite H1, H2, H3, H4, H5, H6, H7, H8, H9, H10, H11. reflexivity.
Qed.
Lemma atom_ok_dot s1 g : ok p_atom 1 (c_dot :: s1) g (AnyNL, s1, g).
Proof. intros f Hf. destruct f as [|f]; [lia|]. reflexivity. Qed.
Lemma atom_ok_esc e a s2 g : esc_atom e = POk a -> ok p_atom 1 (c_bsl :: e :: s2) g (a, s2, g).
Proof.
  intros H f Hf. destruct f as [|f]; [lia|]. rewrite p_atom_S.
  change (N.eqb c_bsl c_lpar) with false. change (N.eqb c_bsl c_rpar) with false.
  change (N.eqb c_bsl c_lbrk) with false. rewrite N.eqb_refl. rewrite H. reflexivity.
Qed.

(* ================================================================================================ *)
(* 3. simple regexes of variables: printer, meaning, and parsing of the printed text                  *)
(* ================================================================================================ *)

Inductive citem := COne (c : ch) | CRange (lo hi : ch).                     (* c | lo-hi inside [..] *)
Inductive atom := ALit (c : ch) | ADigit | AWord | ADot | AClass (neg : bool) (its : list citem).
Inductive rop := ONone | OStar | OPlus | OQuest.
Definition piece := (atom * rop)%type.
Definition sre := list piece.

(* characters a class may list literally (parser level): anything but [ \ ] - ^ *)
Definition cls_chr (c : ch) : bool := negb (existsb (N.eqb c) [c_lbrk; c_bsl; c_rbrk; c_minus; c_caret]).
Definition citem_ok (i : citem) : bool :=
  match i with COne c => cls_chr c | CRange lo hi => cls_chr lo && cls_chr hi && N.leb lo hi end.
Lemma cls_cases c : cls_chr c = true -> c <> 91 /\ c <> 92 /\ c <> 93 /\ c <> 45 /\ c <> 94.
Proof.
  unfold cls_chr. intros H. apply negb_true_iff in H. cbn [existsb] in H. rewrite !orb_false_iff, !N.eqb_neq in H.
  uc. tauto.
Qed.
Definition atom_wf (a : atom) : bool :=
  match a with
  | ALit c => is_alnum c
  | AClass _ its => match its with [] => false | _ => forallb citem_ok its end
  | _ => true
  end.
Definition sre_ok (e : sre) : bool := forallb (fun p => atom_wf (fst p)) e.

Definition show_citem (i : citem) : str := match i with COne c => [c] | CRange lo hi => [lo; c_minus; hi] end.
Definition show_atom (a : atom) : str :=
  match a with
  | ALit c => [c]
  | ADigit => [c_bsl; 100]
  | AWord => [c_bsl; 119]
  | ADot => [c_dot]
  | AClass neg its => c_lbrk :: (if neg then [c_caret] else []) ++ flat_map show_citem its ++ [c_rbrk]
  end.
Definition show_op (o : rop) : str :=
  match o with ONone => [] | OStar => [c_star] | OPlus => [c_plus] | OQuest => [c_quest] end.
Definition show_piece (p : piece) : str := show_atom (fst p) ++ show_op (snd p).
Definition show_sre (e : sre) : str := flat_map show_piece e.

Definition citem_rng (i : citem) : ch * ch := match i with COne c => (c, c) | CRange lo hi => (lo, hi) end.
Definition atom_rx (a : atom) : rx :=
  match a with
  | ALit c => Chr c
  | ADigit => Cls false r_digit
  | AWord => Cls false r_word
  | ADot => AnyNL
  | AClass neg its => Cls neg (map citem_rng its)
  end.
Definition op_rx (o : rop) (a : rx) : rx :=
  match o with ONone => a | OStar => Star a | OPlus => Plus a | OQuest => Opt a end.
Definition piece_rx (p : piece) : rx := op_rx (snd p) (atom_rx (fst p)).
(* exactly the tree the parser builds: right-nested concatenation closed by Eps *)
Definition sre_rx (e : sre) : rx := fold_right (fun p r => Cat (piece_rx p) r) Eps e.
(* the same without the closing Eps *)
Fixpoint sre_rx' (e : sre) : rx :=
  match e with [] => Eps | [p] => piece_rx p | p :: r => Cat (piece_rx p) (sre_rx' r) end.

Lemma sre_rx_req e : req (sre_rx e) (sre_rx' e).
Proof.
  induction e as [|p r IH]; [apply req_refl|]. destruct r as [|q r].
  - apply req_cat_eps_r.
  - change (req (Cat (piece_rx p) (sre_rx (q :: r))) (Cat (piece_rx p) (sre_rx' (q :: r)))).
    apply req_cat; [apply req_refl|exact IH].
Qed.

(* --- classes --- *)
Lemma p_class_items : forall its f acc rest,
  forallb citem_ok its = true -> (List.length its < f)%nat ->
  p_class f (flat_map show_citem its ++ c_rbrk :: rest) acc = POk (rev acc ++ map citem_rng its, rest).
Proof.
  induction its as [|i its IH]; intros f acc rest Hok Hf; (destruct f as [|f]; [cbn [List.length] in Hf; lia|]).
  - cbn [flat_map app p_class]. rewrite N.eqb_refl. cbn [map]. rewrite app_nil_r. reflexivity.
  - cbn [forallb] in Hok. apply andb_true_iff in Hok. destruct Hok as [Hi Hok].
    cbn [List.length] in Hf. cbn [flat_map map]. rewrite <- app_assoc.
    assert (Hhd: forall s1, s1 = flat_map show_citem its ++ c_rbrk :: rest ->
                 match s1 with d :: _ => N.eqb d c_minus = false | [] => False end).
    { intros s1 ->. destruct its as [|j its']; cbn [flat_map app]; [reflexivity|].
      cbn [forallb] in Hok. apply andb_true_iff in Hok. destruct Hok as [Hj _].
      destruct j as [c|lo hi]; cbn [show_citem app citem_ok] in *.
      - apply cls_cases in Hj. ceq. reflexivity.
      - apply andb_true_iff in Hj. destruct Hj as [Hj _]. apply andb_true_iff in Hj. destruct Hj as [Hj _].
        apply cls_cases in Hj. ceq. reflexivity. }
    destruct i as [c|lo hi]; cbn [show_citem app citem_ok citem_rng] in *.
    + apply cls_cases in Hi.
      specialize (Hhd _ eq_refl). remember (flat_map show_citem its ++ c_rbrk :: rest) as s1 eqn:Es1.
      assert (Hstep: p_class (S f) (c :: s1) acc = p_class f s1 ((c, c) :: acc)).
      { cbn [p_class]. ceq. destruct s1 as [|d [|h s3]]; [contradiction|reflexivity|]. rewrite Hhd. reflexivity. }
      rewrite Hstep. subst s1. rewrite IH by (auto; lia). cbn [rev]. rewrite <- app_assoc. reflexivity.
    + apply andb_true_iff in Hi. destruct Hi as [Hi Hle]. apply andb_true_iff in Hi. destruct Hi as [Hlo Hhi].
      apply cls_cases in Hlo. apply cls_cases in Hhi. apply N.leb_le in Hle.
      cbn [p_class]. ceq. cbn [andb negb orb].
      replace (N.ltb hi lo) with false by (symmetry; apply N.ltb_ge; exact Hle).
      rewrite IH by (auto; lia). cbn [rev]. rewrite <- app_assoc. reflexivity.
Qed.

Lemma citems_len its : (List.length its <= List.length (flat_map show_citem its))%nat.
Proof.
  induction its as [|i its IH]; [cbn; lia|]. cbn [flat_map]. rewrite app_length.
  destruct i; cbn [show_citem List.length]; lia.
Qed.

Lemma citems_hd its : its <> [] -> forallb citem_ok its = true ->
  exists b t, flat_map show_citem its = b :: t /\ cls_chr b = true.
Proof.
  destruct its as [|i its]; [congruence|]. intros _ H. cbn [forallb] in H. apply andb_true_iff in H.
  destruct H as [Hi _]. destruct i as [c|lo hi]; cbn [flat_map show_citem app citem_ok] in *.
  - eauto.
  - apply andb_true_iff in Hi. destruct Hi as [Hi _]. apply andb_true_iff in Hi. destruct Hi as [Hi _]. eauto.
Qed.

Lemma atom_ok_show a rest g : atom_wf a = true ->
  ok p_atom (List.length (show_atom a)) (show_atom a ++ rest) g (atom_rx a, rest, g).
Proof.
  intros Hwf. destruct a as [c| | | |neg its]; cbn [show_atom atom_rx app List.length].
  - apply atom_ok_chr. cbn [atom_wf] in Hwf. apply alnum_cases in Hwf.
    unfold plain. cbn [existsb]. ceq. reflexivity.
  - eapply ok_mono; [apply atom_ok_esc; reflexivity|lia].
  - eapply ok_mono; [apply atom_ok_esc; reflexivity|lia].
  - apply atom_ok_dot.
  - cbn [atom_wf] in Hwf. assert (Hne: its <> []) by (destruct its; [discriminate|congruence]).
    assert (Hok: forallb citem_ok its = true) by (destruct its; [discriminate|exact Hwf]).
    intros f Hf. destruct f as [|f]; [lia|]. rewrite p_atom_S.
    change (N.eqb c_lbrk c_lpar) with false. change (N.eqb c_lbrk c_rpar) with false. rewrite N.eqb_refl.
    cbv iota.
    assert (Hlen: (List.length its < f)%nat).
    { pose proof (citems_len its). rewrite !app_length in Hf. cbn [List.length] in Hf. lia. }
    pose proof (p_class_items its f [] rest Hok Hlen) as HC. cbn [rev app] in HC.
    destruct (citems_hd its Hne Hok) as (b & t & E & Hb). apply cls_cases in Hb.
    rewrite <- !app_assoc. cbn [app]. rewrite E in *.
    destruct neg; cbn [app] in *.
    + rewrite N.eqb_refl. ceq. rewrite HC. reflexivity.
    + ceq. rewrite HC. reflexivity.
Qed.

Lemma atom_hd a x : atom_wf a = true -> nop (show_atom a ++ x) = true /\ cat_stop (show_atom a ++ x) = false.
Proof.
  intros Hwf. destruct a as [c| | | |neg its]; cbn [show_atom app nop cat_stop]; try (split; reflexivity).
  cbn [atom_wf] in Hwf. apply alnum_cases in Hwf. ceq. split; reflexivity.
Qed.

Lemma rep_ok_piece p rest g : atom_wf (fst p) = true -> nop rest = true ->
  ok p_rep (S (List.length (show_atom (fst p)))) (show_piece p ++ rest) g (piece_rx p, rest, g).
Proof.
  intros Hwf Hn. destruct p as [a o]. unfold show_piece, piece_rx. cbn [fst snd] in *. rewrite <- app_assoc.
  pose proof (atom_ok_show a (show_op o ++ rest) g Hwf) as Ha.
  destruct o; cbn [show_op app op_rx] in *.
  - apply rep_ok_none; assumption.
  - apply rep_ok_star; assumption.
  - apply rep_ok_plus; assumption.
  - apply rep_ok_quest; assumption.
Qed.

Lemma piece_hd p x : atom_wf (fst p) = true -> nop (show_piece p ++ x) = true /\ cat_stop (show_piece p ++ x) = false.
Proof. intros H. unfold show_piece. rewrite <- app_assoc. apply atom_hd. exact H. Qed.

Lemma cat_stop_nop s : cat_stop s = true -> nop s = true.
Proof.
  destruct s as [|c r]; [reflexivity|]. cbn [cat_stop nop]. intros H. apply orb_true_iff in H.
  destruct H as [H|H]; apply N.eqb_eq in H; subst c; reflexivity.
Qed.

(* continuation lemma: the pieces are consumed and parsing stops exactly before [rest] *)
Lemma cat_ok_sre : forall e rest g, forallb (fun p => atom_wf (fst p)) e = true -> cat_stop rest = true ->
  ok p_cat (List.length (show_sre e) + 2) (show_sre e ++ rest) g (sre_rx e, rest, g).
Proof.
  induction e as [|p e IH]; intros rest g Hwf Hstop.
  - cbn [show_sre flat_map app sre_rx fold_right List.length]. eapply ok_mono; [apply cat_ok_stop; exact Hstop|lia].
  - cbn [forallb] in Hwf. apply andb_true_iff in Hwf. destruct Hwf as [Hp Hwf].
    unfold show_sre. cbn [flat_map sre_rx fold_right]. fold (show_sre e). fold (sre_rx e). rewrite <- app_assoc.
    assert (Hn: nop (show_sre e ++ rest) = true).
    { destruct e as [|q e']; [cbn [show_sre flat_map app]; apply cat_stop_nop; exact Hstop|].
      cbn [forallb] in Hwf. apply andb_true_iff in Hwf. destruct Hwf as [Hq _].
      unfold show_sre. cbn [flat_map]. rewrite <- app_assoc. apply piece_hd. exact Hq. }
    eapply ok_mono.
    + eapply cat_ok_cons.
      * apply piece_hd. exact Hp.
      * apply rep_ok_piece; [exact Hp|exact Hn].
      * apply IH; [exact Hwf|exact Hstop].
    + rewrite app_length. unfold show_piece. rewrite app_length.
      assert (1 <= List.length (show_atom (fst p)))%nat by (destruct (fst p) as [| | | |[|]]; cbn; lia).
      lia.
Qed.

Lemma cat_stop_alt_stop s : alt_stop s = true -> cat_stop s = true.
Proof. destruct s as [|c r]; [reflexivity|]. cbn [alt_stop cat_stop]. intros ->. apply orb_true_r. Qed.

Lemma alt_ok_sre e rest g : forallb (fun p => atom_wf (fst p)) e = true -> alt_stop rest = true ->
  ok p_alt (List.length (show_sre e) + 3) (show_sre e ++ rest) g (sre_rx e, rest, g).
Proof.
  intros Hwf Hstop. eapply ok_mono; [apply alt_ok_cat; [apply cat_ok_sre; [exact Hwf|]|exact Hstop]|lia].
  apply cat_stop_alt_stop. exact Hstop.
Qed.

(* (a) the printed regex parses back to its own tree, with no capturing group *)
Theorem parse_show_sre e : forallb (fun p => atom_wf (fst p)) e = true -> parse_rx (show_sre e) = POk (sre_rx e, 0%nat).
Proof.
  intros Hwf. unfold parse_rx. pose proof (alt_ok_sre e [] 0%nat Hwf eq_refl) as H. rewrite app_nil_r in H.
  rewrite H by lia. reflexivity.
Qed.
Corollary parse_show_sre_full e : forallb (fun p => atom_wf (fst p)) e = true ->
  exists r, parse_rx (show_sre e) = POk (r, 0%nat) /\ forall s, full r s = full (sre_rx' e) s.
Proof. intros H. exists (sre_rx e). split; [apply parse_show_sre; exact H|apply req_full, sre_rx_req]. Qed.

(* ================================================================================================ *)
(* 4. string utilities                                                                                *)
(* ================================================================================================ *)
Local Open Scope nat_scope.

Definition nochr (x : ch) (s : str) : bool := forallb (fun c => negb (N.eqb c x)) s.

Lemma nochr_app x a b : nochr x (a ++ b) = nochr x a && nochr x b.
Proof. apply forallb_app. Qed.

Lemma forallb_impl {A} (p q : A -> bool) l : (forall x, p x = true -> q x = true) -> forallb p l = true -> forallb q l = true.
Proof.
  intros H. induction l as [|x l IH]; [reflexivity|]. cbn [forallb]. rewrite !andb_true_iff. intros [Hx Hl]. auto.
Qed.

Lemma index_of_none x s : nochr x s = true -> index_of x s = None.
Proof.
  induction s as [|c s IH]; [reflexivity|]. cbn [nochr forallb index_of]. fold (nochr x s).
  intros H. apply andb_true_iff in H. destruct H as [Hc Hs]. apply negb_true_iff in Hc. rewrite Hc, (IH Hs). reflexivity.
Qed.
Lemma index_of_app x a b : nochr x a = true ->
  index_of x (a ++ b) = match index_of x b with Some i => Some (List.length a + i) | None => None end.
Proof.
  induction a as [|c a IH]; intros H.
  - cbn [app List.length]. destruct (index_of x b); reflexivity.
  - cbn [nochr forallb] in H. fold (nochr x a) in H. apply andb_true_iff in H. destruct H as [Hc Ha].
    apply negb_true_iff in Hc. cbn [app index_of]. rewrite Hc, (IH Ha). destruct (index_of x b); reflexivity.
Qed.
Lemma index_of_here x a b : nochr x a = true -> index_of x (a ++ x :: b) = Some (List.length a).
Proof. intros H. rewrite index_of_app by exact H. cbn [index_of]. rewrite N.eqb_refl. f_equal. lia. Qed.

Lemma firstn_len_app {A} (a b : list A) : firstn (List.length a) (a ++ b) = a.
Proof. induction a as [|x a IH]; [reflexivity|]. cbn [List.length app firstn]. rewrite IH. reflexivity. Qed.
Lemma skipn_len_app {A} (a b : list A) : skipn (List.length a) (a ++ b) = b.
Proof. induction a as [|x a IH]; [reflexivity|]. cbn [List.length app skipn]. exact IH. Qed.

Lemma de_none p s : forallb (fun c => negb (p c)) s = true -> de p s = s.
Proof.
  induction s as [|c s IH]; [reflexivity|]. cbn [forallb de]. intros H. apply andb_true_iff in H. destruct H as [Hc Hs].
  rewrite (IH Hs). apply negb_true_iff in Hc. rewrite Hc. destruct s; reflexivity.
Qed.
Lemma de_snoc p s c : p c = true -> de p (s ++ [c]) = de p s.
Proof.
  intros Hc. induction s as [|x s IH]; cbn [app de].
  - rewrite Hc. reflexivity.
  - rewrite IH. reflexivity.
Qed.
Lemma de_repeat p s c n : p c = true -> de p (s ++ repeat c n) = de p s.
Proof.
  intros Hc. induction n as [|n IH]; cbn [repeat].
  - rewrite app_nil_r. reflexivity.
  - rewrite repeat_cons, app_assoc, de_snoc by exact Hc. exact IH.
Qed.
Lemma dw_none p s : forallb (fun c => negb (p c)) s = true -> dw p s = s.
Proof.
  destruct s as [|c s]; [reflexivity|]. cbn [forallb dw]. intros H. apply andb_true_iff in H. destruct H as [Hc _].
  apply negb_true_iff in Hc. rewrite Hc. reflexivity.
Qed.
Lemma trim_space_none s : forallb (fun c => negb (is_space c)) s = true -> trim_space s = s.
Proof. intros H. unfold trim_space. rewrite dw_none by exact H. apply de_none. exact H. Qed.

(* --- the variable scanner (regexp `{[^/]+}`) --- *)
Lemma seg_run_eq s : fst (seg_run s) ++ snd (seg_run s) = s.
Proof.
  induction s as [|c s IH]; [reflexivity|]. cbn [seg_run]. destruct (N.eqb c slash); [reflexivity|].
  destruct (seg_run s) as [a b]. cbn [fst snd app] in *. rewrite IH. reflexivity.
Qed.
Lemma seg_run_app a b : nochr slash a = true -> seg_run (a ++ b) = (a ++ fst (seg_run b), snd (seg_run b)).
Proof.
  induction a as [|c a IH]; intros H.
  - cbn [app]. destruct (seg_run b); reflexivity.
  - cbn [nochr forallb] in H. fold (nochr slash a) in H. apply andb_true_iff in H. destruct H as [Hc Ha].
    apply negb_true_iff in Hc. cbn [app seg_run]. rewrite Hc, (IH Ha). reflexivity.
Qed.
Lemma split_last_none s : nochr rbrace s = true -> split_last_rbrace s = None.
Proof.
  induction s as [|c s IH]; [reflexivity|]. cbn [nochr forallb split_last_rbrace]. fold (nochr rbrace s).
  intros H. apply andb_true_iff in H. destruct H as [Hc Hs]. apply negb_true_iff in Hc. rewrite (IH Hs), Hc. reflexivity.
Qed.
Lemma split_last_here inner t : nochr rbrace t = true -> split_last_rbrace (inner ++ rbrace :: t) = Some (inner, t).
Proof.
  intros Ht. induction inner as [|c inner IH]; cbn [app split_last_rbrace].
  - rewrite (split_last_none t Ht). rewrite N.eqb_refl. reflexivity.
  - rewrite IH. reflexivity.
Qed.
(* scanning one variable: "{" inner "}" tail, where the rest of the segment has no "}" *)
Lemma var_scan inner tail : nochr slash inner = true -> nochr rbrace (fst (seg_run tail)) = true ->
  seg_run (inner ++ rbrace :: tail) = (inner ++ rbrace :: fst (seg_run tail), snd (seg_run tail)) /\
  split_last_rbrace (inner ++ rbrace :: fst (seg_run tail)) = Some (inner, fst (seg_run tail)).
Proof.
  intros Hi Ht. split.
  - rewrite seg_run_app by exact Hi. cbn [seg_run]. change (N.eqb rbrace slash) with false.
    destruct (seg_run tail); reflexivity.
  - apply split_last_here. exact Ht.
Qed.

(* --- strings.NewReplacer --- *)
Definition olds_lbrace (pairs : list (str * str)) : Prop :=
  forall o n, In (o, n) pairs -> exists t, o = lbrace :: t.
Lemma match_pair_other pairs c s : olds_lbrace pairs -> N.eqb c lbrace = false -> match_pair pairs (c :: s) = None.
Proof.
  induction pairs as [|[o n] ps IH]; intros Ho Hc; [reflexivity|]. cbn [match_pair].
  destruct (Ho o n (or_introl eq_refl)) as [t ->]. cbn [has_prefix].
  rewrite N.eqb_sym, Hc. cbn [andb]. apply IH; [|exact Hc]. intros o' n' Hin. apply (Ho o' n'). right. exact Hin.
Qed.
Lemma has_prefix_refl a b : has_prefix a (a ++ b) = true.
Proof. induction a as [|x a IH]; [reflexivity|]. cbn [app has_prefix]. rewrite N.eqb_refl. exact IH. Qed.
(* the first applicable pair is the right one *)
Lemma match_pair_in : forall pairs old new rest, In (old, new) pairs -> old <> [] ->
  (forall o n, In (o, n) pairs -> has_prefix o (old ++ rest) = true -> o = old /\ n = new) ->
  match_pair pairs (old ++ rest) = Some (new, rest).
Proof.
  induction pairs as [|[o n] ps IH]; intros old new rest Hin Hne Huniq; [contradiction|]. cbn [match_pair].
  destruct o as [|x o'].
  - destruct Hin as [E|Hin]; [inversion E; subst; congruence|].
    apply IH; [exact Hin|exact Hne|]. intros o1 n1 H1. apply Huniq. right. exact H1.
  - destruct (has_prefix (x :: o') (old ++ rest)) eqn:Ep.
    + destruct (Huniq (x :: o') n (or_introl eq_refl) Ep) as [Eo En]. rewrite Eo, En, skipn_len_app. reflexivity.
    + destruct Hin as [E|Hin].
      * inversion E; subst. rewrite has_prefix_refl in Ep. discriminate.
      * apply IH; [exact Hin|exact Hne|]. intros o1 n1 H1. apply Huniq. right. exact H1.
Qed.
(* two brace-delimited texts: one is a prefix of the other followed by anything only if they are equal *)
Lemma has_prefix_braced x y rest : nochr rbrace x = true -> nochr rbrace y = true ->
  has_prefix (x ++ [rbrace]) (y ++ rbrace :: rest) = true -> x = y.
Proof.
  revert y. induction x as [|a x IH]; intros y Hx Hy H.
  - destruct y as [|b y]; [reflexivity|]. cbn [app has_prefix] in H. apply andb_true_iff in H. destruct H as [H _].
    apply N.eqb_eq in H. subst b. cbn [nochr forallb] in Hy. rewrite N.eqb_refl in Hy. discriminate.
  - cbn [nochr forallb] in Hx. fold (nochr rbrace x) in Hx. apply andb_true_iff in Hx. destruct Hx as [Ha Hx].
    destruct y as [|b y].
    + cbn [app has_prefix] in H. apply andb_true_iff in H. destruct H as [H _]. apply N.eqb_eq in H. subst a.
      rewrite N.eqb_refl in Ha. discriminate.
    + cbn [nochr forallb] in Hy. fold (nochr rbrace y) in Hy. apply andb_true_iff in Hy. destruct Hy as [_ Hy].
      cbn [app has_prefix] in H. apply andb_true_iff in H. destruct H as [Hab H]. apply N.eqb_eq in Hab. subst b.
      f_equal. apply IH; assumption.
Qed.
(* characters that start no pair are copied *)
Lemma replace_skip pairs : olds_lbrace pairs -> forall t f rest R,
  (forall f', List.length rest < f' -> replace_pairs f' pairs rest = R) ->
  nochr lbrace t = true -> List.length (t ++ rest) < f -> replace_pairs f pairs (t ++ rest) = t ++ R.
Proof.
  intros Ho. induction t as [|c t IH]; intros f rest R HR Ht Hf.
  - cbn [app] in *. apply HR. exact Hf.
  - cbn [nochr forallb] in Ht. fold (nochr lbrace t) in Ht. apply andb_true_iff in Ht. destruct Ht as [Hc Ht].
    apply negb_true_iff in Hc. destruct f as [|f]; [lia|]. cbn [app replace_pairs].
    rewrite (match_pair_other pairs c _ Ho Hc). f_equal. cbn [app List.length] in Hf.
    apply IH; [exact HR|exact Ht|lia].
Qed.

(* ================================================================================================ *)
(* 5. printable patterns                                                                              *)
(* ================================================================================================ *)

(* regexes a user may write inside {name:regex}: classes list alphanumerics only (no "/" and no "}") *)
Definition citem_user (i : citem) : bool :=
  match i with COne c => is_alnum c | CRange lo hi => is_alnum lo && is_alnum hi && N.leb lo hi end.
Definition atom_user (a : atom) : bool :=
  match a with
  | ALit c => is_alnum c
  | AClass _ its => match its with [] => false | _ => forallb citem_user its end
  | _ => true
  end.
Definition sre_user (e : sre) : bool := forallb (fun p => atom_user (fst p)) e.
Lemma alnum_cls c : is_alnum c = true -> cls_chr c = true.
Proof. intros H. apply alnum_cases in H. unfold cls_chr. cbn [existsb]. ceq. reflexivity. Qed.
Lemma citem_user_ok i : citem_user i = true -> citem_ok i = true.
Proof.
  destruct i as [c|lo hi]; cbn [citem_user citem_ok]; [apply alnum_cls|]. rewrite !andb_true_iff. intros [[H1 H2] H3].
  auto using alnum_cls.
Qed.
Lemma atom_user_wf a : atom_user a = true -> atom_wf a = true.
Proof.
  destruct a as [c| | | |neg its]; cbn [atom_user atom_wf]; auto. destruct its as [|i its]; [auto|].
  apply forallb_impl. apply citem_user_ok.
Qed.
Lemma sre_user_ok e : sre_user e = true -> sre_ok e = true.
Proof. apply forallb_impl. intros p. apply atom_user_wf. Qed.

(* the regex of a variable: written explicitly, or the default form {name} *)
Inductive vspec := VRe (e : sre) | VDef.
(* what {name} stands for: the global variables all / any / num, otherwise [^/]+ (utils.go getGlobalVar) *)
Definition sre_any : sre := [(AClass true [COne 47%N], OPlus)].
Definition def_sre (n : str) : sre :=
  if str_eqb n [97; 108; 108]%N then [(ADot, OStar)]
  else if str_eqb n [97; 110; 121]%N then sre_any
  else if str_eqb n [110; 117; 109]%N then [(AClass false [CRange 49 57], ONone); (AClass false [CRange 48 57], OStar)]%N
  else sre_any.
Definition vsre (n : str) (v : vspec) : sre := match v with VRe e => e | VDef => def_sre n end.
Lemma def_sre_text n : show_sre (def_sre n) = get_global_var n.
Proof.
  unfold def_sre, get_global_var, global_vars, lookup_var. unfold ch.
  destruct (str_eqb n [97; 108; 108]%N); [reflexivity|]. destruct (str_eqb n [97; 110; 121]%N); [reflexivity|].
  destruct (str_eqb n [110; 117; 109]%N); reflexivity.
Qed.
Lemma def_sre_ok n : sre_ok (def_sre n) = true.
Proof.
  unfold def_sre. destruct (str_eqb n [97; 108; 108]%N); [reflexivity|]. destruct (str_eqb n [97; 110; 121]%N); [reflexivity|].
  destruct (str_eqb n [110; 117; 109]%N); reflexivity.
Qed.
Lemma def_sre_good n : good_regex_string (show_sre (def_sre n)) = true.
Proof.
  unfold def_sre. destruct (str_eqb n [97; 108; 108]%N); [reflexivity|]. destruct (str_eqb n [97; 110; 121]%N); [reflexivity|].
  destruct (str_eqb n [110; 117; 109]%N); reflexivity.
Qed.

Inductive pitem := PChr (c : ch) | PVar (name : str) (v : vspec).
(* required items followed by nested optional levels: /a[/b[/c]] *)
Record ppat := { pp_req : list pitem; pp_opts : list (list pitem) }.

Definition showg (fc : ch -> str) (fv : str -> vspec -> str) (its : list pitem) : str :=
  flat_map (fun it => match it with PChr c => fc c | PVar n e => fv n e end) its.
Definition var_inner (n : str) (v : vspec) : str := match v with VRe e => n ++ colon :: show_sre e | VDef => n end.
Definition var_text (n : str) (v : vspec) : str := braces (var_inner n v).        (* {name:regex} | {name} *)
Definition show_items : list pitem -> str := showg (fun c => [c]) var_text.

(* the bracket structure as items: "[" before every optional level, all "]" at the end *)
Definition opens (ls : list (list pitem)) : list pitem := flat_map (fun l => PChr lbrack :: l) ls.
Definition closers (n : nat) : list pitem := repeat (PChr rbrack) n.
Definition flat (p : ppat) : list pitem := pp_req p ++ opens (pp_opts p) ++ closers (List.length (pp_opts p)).
Definition show_ppat (p : ppat) : str := show_items (flat p).

(* grammar-level AST: adjacent literal characters are merged *)
Definition cons_lit (c : ch) (its : list item) : list item :=
  match its with Lit s :: r => Lit (c :: s) :: r | _ => Lit [c] :: its end.
Fixpoint to_items (its : list pitem) : list item :=
  match its with
  | [] => []
  | PChr c :: r => cons_lit c (to_items r)
  | PVar n e :: r => Var n (sre_rx (vsre n e)) :: to_items r
  end.
Definition to_pat (p : ppat) : pat := {| p_req := to_items (pp_req p); p_opts := map to_items (pp_opts p) |}.

Definition vars (its : list pitem) : list (str * vspec) :=
  flat_map (fun it => match it with PVar n e => [(n, e)] | PChr _ => [] end) its.
Definition pnames (its : list pitem) : list str := map fst (vars its).

(* well-formedness *)
Definition name_ok (n : str) : bool := match n with [] => false | _ => forallb is_alnum n end.
Definition var_ok (n : str) (v : vspec) : bool := name_ok n && match v with VRe e => sre_user e | VDef => true end.
Definition pitem_ok (it : pitem) : bool := match it with PChr c => is_safe c | PVar n e => var_ok n e end.
(* at most one variable per path segment: [seen] = a variable already occurred after the last "/" *)
Fixpoint seg_ok (seen : bool) (its : list pitem) : bool :=
  match its with
  | [] => true
  | PChr c :: r => seg_ok (if N.eqb c slash then false else seen) r
  | PVar _ _ :: r => negb seen && seg_ok true r
  end.
Definition all_items (p : ppat) : list pitem := pp_req p ++ concat (pp_opts p).
Definition starts_slash (its : list pitem) : bool := match its with PChr c :: _ => N.eqb c slash | _ => false end.

(* brackets count as characters of the flat item list *)
Definition fchr_ok (c : ch) : bool := is_safe c || N.eqb c lbrack || N.eqb c rbrack.
Definition fitem_ok (it : pitem) : bool := match it with PChr c => fchr_ok c | PVar n e => var_ok n e end.

Lemma showg_app fc fv a b : showg fc fv (a ++ b) = showg fc fv a ++ showg fc fv b.
Proof. apply flat_map_app. Qed.
Lemma showg_chr fc fv c r : showg fc fv (PChr c :: r) = fc c ++ showg fc fv r.
Proof. reflexivity. Qed.
Lemma showg_var fc fv n e r : showg fc fv (PVar n e :: r) = fv n e ++ showg fc fv r.
Proof. reflexivity. Qed.

(* --- characters of the printed texts --- *)
Definition is_rchr (c : ch) : bool := is_alnum c || existsb (N.eqb c) [92; 46; 91; 93; 94; 45; 42; 43; 63]%N.
Lemma rchr_cases c : is_rchr c = true ->
  ((48 <= c <= 57 \/ 65 <= c <= 90 \/ 97 <= c <= 122) \/ c = 92 \/ c = 46 \/ c = 91 \/ c = 93 \/ c = 94 \/ c = 45 \/ c = 42 \/ c = 43 \/ c = 63)%N.
Proof.
  unfold is_rchr. cbn [existsb]. rewrite !orb_true_iff, !N.eqb_eq. intros [H|H]; [left; apply alnum_cases; exact H|].
  repeat (destruct H as [H|H]; [lia|]). discriminate.
Qed.
Lemma alnum_rchr c : is_alnum c = true -> is_rchr c = true.
Proof. intros H. unfold is_rchr. rewrite H. reflexivity. Qed.

Lemma show_sre_rchr e : sre_user e = true -> forallb is_rchr (show_sre e) = true.
Proof.
  unfold sre_user. induction e as [|[a o] e IH]; [reflexivity|]. cbn [forallb fst]. intros H. apply andb_true_iff in H. destruct H as [Ha He].
  unfold show_sre. cbn [flat_map]. fold (show_sre e). rewrite forallb_app, (IH He), andb_true_r.
  unfold show_piece. cbn [fst snd]. rewrite forallb_app. apply andb_true_iff. split; [|destruct o; reflexivity].
  destruct a as [c| | | |neg its]; cbn [show_atom atom_user] in *; try reflexivity.
  - cbn [forallb]. rewrite (alnum_rchr c Ha). reflexivity.
  - assert (Hok: forallb citem_user its = true) by (destruct its; [discriminate|exact Ha]).
    cbn [forallb]. rewrite !forallb_app. change (is_rchr c_lbrk) with true. cbn [andb].
    apply andb_true_iff. split; [destruct neg; reflexivity|]. apply andb_true_iff. split; [|reflexivity].
    clear Ha. induction its as [|i its IHi]; [reflexivity|]. cbn [forallb] in Hok. apply andb_true_iff in Hok. destruct Hok as [Hi Hok].
    cbn [flat_map]. rewrite forallb_app, (IHi Hok), andb_true_r.
    destruct i as [c|lo hi]; cbn [show_citem citem_user forallb] in *.
    + rewrite (alnum_rchr c Hi). reflexivity.
    + apply andb_true_iff in Hi. destruct Hi as [Hi _]. apply andb_true_iff in Hi. destruct Hi as [Hlo Hhi].
      rewrite (alnum_rchr lo Hlo), (alnum_rchr hi Hhi). reflexivity.
Qed.

Lemma forallb_nochr (p : ch -> bool) x s : (forall c, p c = true -> c <> x) -> forallb p s = true -> nochr x s = true.
Proof. intros H. apply forallb_impl. intros c Hc. apply negb_true_iff, N.eqb_neq, H, Hc. Qed.

Lemma not_space c : (33 <= c <= 126)%N -> negb (is_space c) = true.
Proof.
  intros H. apply negb_true_iff. unfold is_space.
  rewrite !orb_false_iff, !andb_false_iff, !N.leb_gt, !N.eqb_neq. lia.
Qed.

Lemma name_ok_alnum n : name_ok n = true -> forallb is_alnum n = true /\ n <> [].
Proof. destruct n; [discriminate|]. intros H. split; [exact H|discriminate]. Qed.

Lemma alnum_nochr x n : forallb is_alnum n = true -> is_alnum x = false -> nochr x n = true.
Proof. intros Hn Hx. apply (forallb_nochr is_alnum); [|exact Hn]. intros c Hc E. subst c. congruence. Qed.
Lemma rchr_nochr x s : forallb is_rchr s = true -> is_rchr x = false -> nochr x s = true.
Proof. intros Hn Hx. apply (forallb_nochr is_rchr); [|exact Hn]. intros c Hc E. subst c. congruence. Qed.
Lemma alnum_nospace n : forallb is_alnum n = true -> forallb (fun c => negb (is_space c)) n = true.
Proof. apply forallb_impl. intros c Hc. apply alnum_cases in Hc. apply not_space. lia. Qed.
Lemma rchr_nospace n : forallb is_rchr n = true -> forallb (fun c => negb (is_space c)) n = true.
Proof. apply forallb_impl. intros c Hc. apply rchr_cases in Hc. apply not_space. lia. Qed.

Lemma vsre_ok n v : var_ok n v = true -> sre_ok (vsre n v) = true.
Proof.
  intros H. apply andb_true_iff in H. destruct H as [_ H]. destruct v as [e|]; [apply sre_user_ok; exact H|apply def_sre_ok].
Qed.
Lemma var_name_alnum n v : var_ok n v = true -> forallb is_alnum n = true /\ n <> [].
Proof. intros H. apply andb_true_iff in H. destruct H as [Hn _]. apply name_ok_alnum. exact Hn. Qed.

Lemma var_inner_nochr x n v : var_ok n v = true -> is_alnum x = false -> is_rchr x = false -> N.eqb colon x = false ->
  nochr x (var_inner n v) = true.
Proof.
  intros H Hx1 Hx2 Hx3. destruct (var_name_alnum n v H) as [Hn _]. apply andb_true_iff in H. destruct H as [_ He].
  destruct v as [e|]; cbn [var_inner]; [|apply alnum_nochr; assumption].
  rewrite nochr_app. cbn [nochr forallb]. fold (nochr x (show_sre e)).
  rewrite (alnum_nochr x n Hn Hx1), (rchr_nochr x _ (show_sre_rchr e He) Hx2), Hx3. reflexivity.
Qed.
Lemma var_inner_noslash n e : var_ok n e = true -> nochr slash (var_inner n e) = true.
Proof. intros H. apply var_inner_nochr; auto. Qed.
Lemma var_inner_norbrace n e : var_ok n e = true -> nochr rbrace (var_inner n e) = true.
Proof. intros H. apply var_inner_nochr; auto. Qed.
Lemma var_inner_cons n e : var_ok n e = true -> exists a t, var_inner n e = a :: t.
Proof.
  intros H. destruct (var_name_alnum n e H) as [_ Hne]. destruct n as [|a n]; [congruence|].
  destruct e as [e|]; cbn [var_inner]; eauto. exists a, (n ++ colon :: show_sre e). reflexivity.
Qed.

Lemma fchr_cases c : fchr_ok c = true ->
  ((48 <= c <= 57 \/ 65 <= c <= 90 \/ 97 <= c <= 122 \/ c = 47 \/ c = 45 \/ c = 95 \/ c = 46) \/ c = 91 \/ c = 93)%N.
Proof.
  unfold fchr_ok. rewrite !orb_true_iff, !N.eqb_eq. intros [[H|H]|H]; [left; apply safe_cases; exact H|uc; lia|uc; lia].
Qed.

(* --- all_vars on printed items --- *)
Lemma seg_tail_ok : forall its, forallb fitem_ok its = true -> seg_ok true its = true ->
  nochr rbrace (fst (seg_run (show_items its))) = true.
Proof.
  induction its as [|[c|n e] its IH]; intros Hok Hseg; [reflexivity| |].
  - cbn [forallb fitem_ok] in Hok. apply andb_true_iff in Hok. destruct Hok as [Hc Hok]. apply fchr_cases in Hc.
    unfold show_items. rewrite showg_chr. fold show_items. cbn [app seg_run]. cbn [seg_ok] in Hseg.
    destruct (N.eqb c slash) eqn:Es; [reflexivity|].
    specialize (IH Hok Hseg). destruct (seg_run (show_items its)) as [a b]. cbn [fst] in *.
    cbn [nochr forallb]. fold (nochr rbrace a). rewrite IH. ceq. reflexivity.
  - cbn [seg_ok negb andb] in Hseg. discriminate.
Qed.

Lemma find_vars_items : forall its f seen, forallb fitem_ok its = true -> seg_ok seen its = true ->
  List.length (show_items its) < f ->
  find_vars f (show_items its) = map (fun v => var_text (fst v) (snd v)) (vars its).
Proof.
  induction its as [|[c|n e] its IH]; intros f seen Hok Hseg Hf; (destruct f as [|f]; [lia|]); [reflexivity| |].
  - cbn [forallb fitem_ok] in Hok. apply andb_true_iff in Hok. destruct Hok as [Hc Hok]. apply fchr_cases in Hc.
    unfold show_items in *. rewrite showg_chr in *. fold show_items in *. cbn [app List.length] in *. cbn [find_vars].
    ceq. cbn [seg_ok] in Hseg. cbn [vars flat_map app]. fold (vars its). eapply IH; [exact Hok|exact Hseg|lia].
  - cbn [forallb fitem_ok] in Hok. apply andb_true_iff in Hok. destruct Hok as [Hv Hok].
    cbn [seg_ok] in Hseg. apply andb_true_iff in Hseg. destruct Hseg as [_ Hseg].
    unfold show_items in *. rewrite showg_var in *. fold show_items in *.
    unfold var_text, braces in *. cbn [app] in *. rewrite <- app_assoc in *. cbn [app] in *.
    cbn [find_vars]. rewrite N.eqb_refl.
    destruct (var_scan (var_inner n e) (show_items its) (var_inner_noslash n e Hv) (seg_tail_ok its Hok Hseg)) as [E1 E2].
    rewrite E1, E2. destruct (var_inner_cons n e Hv) as (a & t & Ei). rewrite Ei at 1. rewrite seg_run_eq.
    cbn [vars flat_map app map fst snd]. fold (vars its). f_equal.
    eapply IH; [exact Hok|exact Hseg|]. cbn [List.length] in Hf. rewrite app_length in Hf. cbn [List.length] in Hf. lia.
Qed.

(* --- var_info on a printed variable --- *)
Lemma skipn_S_len_app {A} (a : list A) x b : skipn (S (List.length a)) (a ++ x :: b) = b.
Proof. induction a as [|y a IH]; [reflexivity|]. cbn [List.length app]. rewrite skipn_cons. exact IH. Qed.

Lemma split_colon_inner n e : var_ok n (VRe e) = true -> split_colon (var_inner n (VRe e)) = Some (n, show_sre e).
Proof.
  intros H. destruct (var_name_alnum _ _ H) as [Hn Hne].
  unfold split_colon, var_inner. rewrite (index_of_here colon n _ (alnum_nochr colon n Hn eq_refl)).
  destruct n as [|a n]; [congruence|]. cbn [List.length].
  change (S (List.length n)) with (List.length (a :: n)). rewrite firstn_len_app, skipn_S_len_app. reflexivity.
Qed.
Lemma split_colon_name n : forallb is_alnum n = true -> split_colon n = None.
Proof. intros Hn. unfold split_colon. rewrite (index_of_none colon n (alnum_nochr colon n Hn eq_refl)). reflexivity. Qed.

Definition mkinfo (nv : str * vspec) : vinfo :=
  {| v_name := fst nv;
     v_raw := match snd nv with VRe _ => Some (var_text (fst nv) (snd nv), braces (fst nv)) | VDef => None end;
     v_pair := (braces (fst nv), parens (show_sre (vsre (fst nv) (snd nv)))); v_good := true |}.

Lemma var_info_text n v : var_ok n v = true -> var_info (var_text n v) = mkinfo (n, v).
Proof.
  intros H. destruct (var_name_alnum _ _ H) as [Hn _]. unfold var_info, var_text, braces. cbn [tl]. rewrite removelast_last.
  destruct v as [e|]; cbn [var_inner].
  - change (n ++ colon :: show_sre e) with (var_inner n (VRe e)). rewrite (split_colon_inner n e H).
    apply andb_true_iff in H. destruct H as [_ He]. pose proof (show_sre_rchr e He) as Hr.
    rewrite (trim_space_none n (alnum_nospace n Hn)), (trim_space_none _ (rchr_nospace _ Hr)).
    unfold mkinfo. cbn [fst snd vsre]. f_equal.
    unfold good_regex_string. rewrite (index_of_none 40%N _ (rchr_nochr 40%N _ Hr eq_refl)). reflexivity.
  - rewrite (split_colon_name n Hn). unfold mkinfo. cbn [fst snd vsre var_inner]. rewrite <- def_sre_text, def_sre_good. reflexivity.
Qed.

(* --- generic facts about showg --- *)
Lemma flat_map_showg g fc fv its :
  flat_map g (showg fc fv its) = showg (fun c => flat_map g (fc c)) (fun n e => flat_map g (fv n e)) its.
Proof.
  induction its as [|[c|n e] its IH]; [reflexivity| |].
  - rewrite !showg_chr, flat_map_app, IH. reflexivity.
  - rewrite !showg_var, flat_map_app, IH. reflexivity.
Qed.
Definition item_rel (P : ch -> Prop) (Q : str -> vspec -> Prop) (it : pitem) : Prop :=
  match it with PChr c => P c | PVar n e => Q n e end.
Lemma showg_ext fc fv fc' fv' its :
  Forall (item_rel (fun c => fc c = fc' c) (fun n e => fv n e = fv' n e)) its -> showg fc fv its = showg fc' fv' its.
Proof.
  induction 1 as [|[c|n e] its Hx _ IH]; [reflexivity| |]; cbn [item_rel] in Hx.
  - rewrite !showg_chr, Hx, IH. reflexivity.
  - rewrite !showg_var, Hx, IH. reflexivity.
Qed.
Lemma nochr_showg x fc fv its :
  Forall (item_rel (fun c => nochr x (fc c) = true) (fun n e => nochr x (fv n e) = true)) its ->
  nochr x (showg fc fv its) = true.
Proof.
  induction 1 as [|[c|n e] its Hx _ IH]; [reflexivity| |]; cbn [item_rel] in Hx.
  - rewrite showg_chr, nochr_app, Hx, IH. reflexivity.
  - rewrite showg_var, nochr_app, Hx, IH. reflexivity.
Qed.
Lemma Forall_forallb {A} (p : A -> bool) (P : A -> Prop) l : (forall x, p x = true -> P x) -> forallb p l = true -> Forall P l.
Proof.
  intros H. induction l as [|x l IH]; [constructor|]. cbn [forallb]. intros Hl. apply andb_true_iff in Hl.
  destruct Hl as [Hx Hl]. constructor; auto.
Qed.

(* replacing inside a printed item list: characters are copied, variables are rewritten (or copied when no pair applies) *)
Lemma match_pair_none pairs t : (forall o n, In (o, n) pairs -> o <> [] /\ has_prefix o t = false) -> match_pair pairs t = None.
Proof.
  induction pairs as [|[o n] ps IH]; intros H; [reflexivity|]. cbn [match_pair].
  destruct (H o n (or_introl eq_refl)) as [Hne Hp]. destruct o as [|x o']; [congruence|]. rewrite Hp.
  apply IH. intros o1 n1 H1. apply (H o1 n1). right. exact H1.
Qed.
Lemma replace_items pairs fc fv fv' : olds_lbrace pairs -> forall its f,
  Forall (item_rel (fun c => nochr lbrace (fc c) = true)
                   (fun n e => (fv n e <> [] /\ forall rest, match_pair pairs (fv n e ++ rest) = Some (fv' n e, rest)) \/
                               (fv' n e = fv n e /\ exists t, fv n e = lbrace :: t /\ nochr lbrace t = true /\
                                forall rest, match_pair pairs (fv n e ++ rest) = None))) its ->
  List.length (showg fc fv its) < f -> replace_pairs f pairs (showg fc fv its) = showg fc fv' its.
Proof.
  intros Ho. induction its as [|[c|n e] its IH]; intros f Hall Hf.
  - destruct f; [lia|reflexivity].
  - inversion Hall as [|x l Hx Hl]; subst. cbn [item_rel] in Hx. rewrite showg_chr in *.
    rewrite (showg_chr fc fv'). apply (replace_skip pairs Ho); [|exact Hx|exact Hf]. intros f' Hf'. apply IH; assumption.
  - inversion Hall as [|x l Hx Hl]; subst. cbn [item_rel] in Hx. rewrite showg_var in *. rewrite (showg_var fc fv').
    destruct Hx as [[Hne Hm]|[Heq (t & Et & Ht & Hm)]].
    + specialize (Hm (showg fc fv its)). destruct f as [|f]; [lia|].
      destruct (fv n e) as [|a t] eqn:Et; [congruence|]. cbn [app] in *. cbn [replace_pairs]. rewrite Hm. f_equal.
      apply IH; [exact Hl|]. cbn [List.length] in Hf. rewrite app_length in Hf. lia.
    + specialize (Hm (showg fc fv its)). rewrite Heq. destruct f as [|f]; [lia|]. rewrite Et in *. cbn [app] in *.
      cbn [replace_pairs]. rewrite Hm. f_equal. cbn [List.length] in Hf.
      apply (replace_skip pairs Ho); [|exact Ht|lia]. intros f' Hf'. apply IH; assumption.
Qed.

(* --- the texts of the successive stages of parseParamRoute --- *)
Definition bracesf (n : str) (_ : vspec) : str := braces n.
Definition parensf (n : str) (v : vspec) : str := parens (show_sre (vsre n v)).
Definition qc (c : ch) : str := if N.eqb c dot then [bslash; dot] else [c].                  (* quotePointChar *)
Definition brc (c : ch) : str := if N.eqb c lbrack then opt_open else if N.eqb c rbrack then opt_close else [c].
Definition rc (c : ch) : str := if N.eqb c dot then [bslash; dot] else brc c.
Definition path1_of (its : list pitem) : str := showg (fun c => [c]) bracesf its.            (* {name:regex} -> {name} *)
Definition path2_of (its : list pitem) : str := showg qc bracesf its.                        (* "." -> "\." *)
Definition path3_of (its : list pitem) : str := showg rc bracesf its.                        (* "[" "]" -> "(?:" ")?" *)
Definition retext_of (its : list pitem) : str := showg rc parensf its.                       (* {name} -> (regex) *)

Definition raw_pairs (vs : list (str * vspec)) : list (str * str) :=
  flat_map (fun v => match snd v with VRe _ => [(var_text (fst v) (snd v), braces (fst v))] | VDef => [] end) vs.
Definition re_pairs (vs : list (str * vspec)) : list (str * str) :=
  map (fun v => (braces (fst v), parens (show_sre (vsre (fst v) (snd v))))) vs.

Lemma in_vars n e its : In (PVar n e) its -> In (n, e) (vars its).
Proof. intros H. unfold vars. apply in_flat_map. exists (PVar n e). split; [exact H|left; reflexivity]. Qed.
Lemma vars_in n e its : In (n, e) (vars its) -> In (PVar n e) its.
Proof.
  unfold vars. intros H. apply in_flat_map in H. destruct H as ([c|n' e'] & Hin & H); [contradiction|].
  destruct H as [H|[]]. inversion H; subst. exact Hin.
Qed.
Lemma Forall_items (P : ch -> Prop) (Q : str -> vspec -> Prop) its :
  (forall c, In (PChr c) its -> P c) -> (forall n e, In (n, e) (vars its) -> Q n e) -> Forall (item_rel P Q) its.
Proof.
  intros HP HQ. apply Forall_forall. intros [c|n e] Hin; cbn [item_rel]; [apply HP; exact Hin|apply HQ, in_vars; exact Hin].
Qed.
Lemma vars_app a b : vars (a ++ b) = vars a ++ vars b.
Proof. apply flat_map_app. Qed.

Lemma fitems_chr its c : forallb fitem_ok its = true -> In (PChr c) its -> fchr_ok c = true.
Proof. intros H Hin. rewrite forallb_forall in H. apply (H _ Hin). Qed.
Lemma fitems_var its n e : forallb fitem_ok its = true -> In (n, e) (vars its) -> var_ok n e = true.
Proof. intros H Hin. apply vars_in in Hin. rewrite forallb_forall in H. apply (H _ Hin). Qed.

Lemma app_sep_inj x : forall a a' b b', nochr x a = true -> nochr x a' = true ->
  a ++ x :: b = a' ++ x :: b' -> a = a' /\ b = b'.
Proof.
  induction a as [|y a IH]; intros a' b b' Ha Ha' E; destruct a' as [|y' a']; cbn [app] in E.
  - inversion E. auto.
  - inversion E; subst. cbn [nochr forallb] in Ha'. rewrite N.eqb_refl in Ha'. discriminate.
  - inversion E; subst. cbn [nochr forallb] in Ha. rewrite N.eqb_refl in Ha. discriminate.
  - inversion E; subst. cbn [nochr forallb] in Ha, Ha'. apply andb_true_iff in Ha, Ha'.
    destruct (IH a' b b' (proj2 Ha) (proj2 Ha') H1) as [-> ->]. auto.
Qed.

Lemma name_nochr n e x : var_ok n e = true -> is_alnum x = false -> nochr x n = true.
Proof. intros H Hx. destruct (var_name_alnum n e H) as [Hn _]. apply alnum_nochr; assumption. Qed.

Lemma in_raw_pairs o nn vs : In (o, nn) (raw_pairs vs) -> exists n e, In (n, VRe e) vs /\ o = var_text n (VRe e) /\ nn = braces n.
Proof.
  unfold raw_pairs. intros H. apply in_flat_map in H. destruct H as ([n v] & Hin & H). cbn [fst snd] in H.
  destruct v as [e|]; [|contradiction]. destruct H as [H|[]]. inversion H; subst. eauto.
Qed.
Lemma raw_pairs_olds vs : olds_lbrace (raw_pairs vs).
Proof.
  intros o n Hin. apply in_raw_pairs in Hin. destruct Hin as (n' & e & _ & -> & _). unfold var_text, braces. eauto.
Qed.
Lemma re_pairs_olds vs : olds_lbrace (re_pairs vs).
Proof.
  intros o n Hin. unfold re_pairs in Hin. apply in_map_iff in Hin. destruct Hin as (v & E & _). inversion E; subst.
  unfold braces. eauto.
Qed.

Lemma raw_match vs n e rest : (forall n e, In (n, e) vs -> var_ok n e = true) -> In (n, VRe e) vs ->
  match_pair (raw_pairs vs) (var_text n (VRe e) ++ rest) = Some (braces n, rest).
Proof.
  intros Hok Hin. apply match_pair_in.
  - unfold raw_pairs. apply in_flat_map. exists (n, VRe e). split; [exact Hin|left; reflexivity].
  - unfold var_text, braces. discriminate.
  - intros o nn Ho Hp. apply in_raw_pairs in Ho. destruct Ho as (n' & e' & Hin' & -> & ->).
    unfold var_text, braces in Hp. cbn [app has_prefix] in Hp. rewrite N.eqb_refl in Hp. cbn [andb] in Hp.
    rewrite <- app_assoc in Hp. cbn [app] in Hp.
    apply has_prefix_braced in Hp; [|apply var_inner_norbrace; auto|apply var_inner_norbrace; auto].
    cbn [var_inner] in Hp. apply app_sep_inj in Hp;
      [|apply (name_nochr n' (VRe e')); auto|apply (name_nochr n (VRe e)); auto].
    destruct Hp as [-> Hs]. unfold var_text. cbn [var_inner]. rewrite Hs. auto.
Qed.
(* a default-form variable {name} is not touched by the first replacer *)
Lemma raw_nomatch vs n rest : (forall n e, In (n, e) vs -> var_ok n e = true) -> var_ok n VDef = true ->
  match_pair (raw_pairs vs) (var_text n VDef ++ rest) = None.
Proof.
  intros Hok Hn. apply match_pair_none. intros o nn Ho. apply in_raw_pairs in Ho. destruct Ho as (n' & e' & Hin' & -> & ->).
  split; [unfold var_text, braces; discriminate|].
  destruct (has_prefix (var_text n' (VRe e')) (var_text n VDef ++ rest)) eqn:Hp; [exfalso|reflexivity].
  unfold var_text, braces in Hp. cbn [app has_prefix] in Hp. rewrite N.eqb_refl in Hp. cbn [andb] in Hp.
  rewrite <- app_assoc in Hp. cbn [app] in Hp.
  apply has_prefix_braced in Hp; [|apply var_inner_norbrace; auto|apply var_inner_norbrace; auto].
  cbn [var_inner] in Hp. pose proof (name_nochr n VDef colon Hn eq_refl) as Hc. rewrite <- Hp in Hc.
  rewrite nochr_app in Hc. cbn [nochr forallb] in Hc. rewrite N.eqb_refl in Hc. cbn [negb andb] in Hc.
  rewrite andb_false_r in Hc. discriminate.
Qed.

Lemma nodup_fst_inj {A B} (l : list (A * B)) a b b' : NoDup (map fst l) -> In (a, b) l -> In (a, b') l -> b = b'.
Proof.
  induction l as [|[x y] l IH]; intros Hnd H1 H2; [contradiction|]. cbn [map fst] in Hnd. inversion Hnd as [|? ? Hnin Hnd']; subst.
  destruct H1 as [H1|H1], H2 as [H2|H2].
  - congruence.
  - inversion H1; subst. exfalso. apply Hnin. apply in_map_iff. exists (a, b'). auto.
  - inversion H2; subst. exfalso. apply Hnin. apply in_map_iff. exists (a, b). auto.
  - apply IH; assumption.
Qed.

Lemma re_match vs n e rest : (forall n e, In (n, e) vs -> var_ok n e = true) -> NoDup (map fst vs) -> In (n, e) vs ->
  match_pair (re_pairs vs) (braces n ++ rest) = Some (parens (show_sre (vsre n e)), rest).
Proof.
  intros Hok Hnd Hin. apply match_pair_in.
  - unfold re_pairs. apply in_map_iff. exists (n, e). split; [reflexivity|exact Hin].
  - unfold braces. discriminate.
  - intros o nn Ho Hp. unfold re_pairs in Ho. apply in_map_iff in Ho. destruct Ho as ([n' e'] & E & Hin').
    cbn [fst snd] in E. inversion E; subst. clear E.
    unfold braces in Hp. cbn [app has_prefix] in Hp. rewrite N.eqb_refl in Hp. cbn [andb] in Hp.
    rewrite <- app_assoc in Hp. cbn [app] in Hp.
    apply has_prefix_braced in Hp; [|apply (name_nochr n' e'); auto|apply (name_nochr n e); auto].
    subst n'. rewrite (nodup_fst_inj vs n e' e Hnd Hin' Hin). auto.
Qed.

(* --- stage lemmas --- *)
Lemma vars_all_ok its : forallb fitem_ok its = true -> forall n e, In (n, e) (vars its) -> var_ok n e = true.
Proof. intros H n e Hin. apply (fitems_var its n e H Hin). Qed.

Lemma stage1 its : forallb fitem_ok its = true ->
  replacer (raw_pairs (vars its)) (show_items its) = path1_of its.
Proof.
  intros Hok. unfold replacer, show_items, path1_of. apply replace_items; [apply raw_pairs_olds| |lia].
  apply Forall_items.
  - intros c Hin. apply (fitems_chr its c Hok) in Hin. apply fchr_cases in Hin. cbn [nochr forallb]. ceq. reflexivity.
  - intros n e Hin. destruct e as [e|].
    + left. split; [unfold var_text, braces; discriminate|]. intros rest.
      apply raw_match; [apply vars_all_ok; exact Hok|exact Hin].
    + right. split; [reflexivity|]. exists (n ++ [rbrace]). split; [reflexivity|]. split.
      * pose proof (vars_all_ok its Hok n VDef Hin) as Hv. rewrite nochr_app, (name_nochr n VDef lbrace Hv eq_refl). reflexivity.
      * intros rest. apply raw_nomatch; [apply vars_all_ok; exact Hok|apply (vars_all_ok its Hok n VDef Hin)].
Qed.

Lemma rc_nolbrace c : fchr_ok c = true -> nochr lbrace (rc c) = true.
Proof.
  intros H. apply fchr_cases in H. unfold rc, brc.
  destruct (N.eqb c dot); [reflexivity|]. destruct (N.eqb c lbrack); [reflexivity|]. destruct (N.eqb c rbrack); [reflexivity|].
  cbn [nochr forallb]. ceq. reflexivity.
Qed.

Lemma stage3 its : forallb fitem_ok its = true -> NoDup (pnames its) ->
  replacer (re_pairs (vars its)) (path3_of its) = retext_of its.
Proof.
  intros Hok Hnd. unfold replacer, path3_of, retext_of. apply replace_items; [apply re_pairs_olds| |lia].
  apply Forall_items.
  - intros c Hin. apply rc_nolbrace. apply (fitems_chr its c Hok Hin).
  - intros n e Hin. left. split; [unfold bracesf, braces; discriminate|]. intros rest.
    unfold bracesf, parensf. apply re_match; [apply vars_all_ok; exact Hok|exact Hnd|exact Hin].
Qed.

Lemma flat_map_id (g : ch -> str) s : (forall c, In c s -> g c = [c]) -> flat_map g s = s.
Proof.
  induction s as [|c s IH]; intros H; [reflexivity|]. cbn [flat_map]. rewrite (H c (or_introl eq_refl)), IH; [reflexivity|].
  intros c' Hc'. apply H. right. exact Hc'.
Qed.
Lemma nochr_in x s c : nochr x s = true -> In c s -> N.eqb c x = false.
Proof. intros H Hin. unfold nochr in H. rewrite forallb_forall in H. apply negb_true_iff. apply H. exact Hin. Qed.

Lemma quote_point_slash s : quote_point (slash :: s) = flat_map qc (slash :: s).
Proof.
  unfold quote_point. cbn [index_of]. change (N.eqb slash dot) with false. cbv iota.
  destruct (index_of dot s) as [i|] eqn:E; [reflexivity|].
  symmetry. cbn [flat_map]. change (qc slash) with [slash]. cbn [app]. f_equal.
  apply flat_map_id. intros c Hin. unfold qc.
  assert (Hn: nochr dot s = true).
  { clear Hin. induction s as [|y s IH]; [reflexivity|]. cbn [index_of] in E. destruct (N.eqb y dot) eqn:Ey; [discriminate|].
    cbn [nochr forallb]. rewrite Ey. cbn [negb andb]. apply IH. destruct (index_of dot s); [discriminate|reflexivity]. }
  rewrite (nochr_in dot s c Hn Hin). reflexivity.
Qed.

Lemma braces_nochr x n : nochr x n = true -> N.eqb lbrace x = false -> N.eqb rbrace x = false -> nochr x (braces n) = true.
Proof.
  intros Hn H1 H2. unfold braces. cbn [nochr forallb]. fold (nochr x (n ++ [rbrace])). rewrite nochr_app, Hn, H1.
  cbn [nochr forallb]. rewrite H2. reflexivity.
Qed.

Lemma flat_map_braces g n x y : (forall c, N.eqb c x = false -> N.eqb c y = false -> g c = [c]) ->
  nochr x n = true -> nochr y n = true -> N.eqb lbrace x = false -> N.eqb rbrace x = false ->
  N.eqb lbrace y = false -> N.eqb rbrace y = false -> flat_map g (braces n) = braces n.
Proof.
  intros Hg Hx Hy H1 H2 H3 H4. apply flat_map_id. intros c Hin.
  apply Hg; [apply (nochr_in x (braces n))|apply (nochr_in y (braces n))]; auto using braces_nochr.
Qed.

Lemma stage2 its : forallb fitem_ok its = true -> starts_slash its = true ->
  quote_point (path1_of its) = path2_of its.
Proof.
  intros Hok Hs. destruct its as [|[c|n e] its]; try discriminate. cbn [starts_slash] in Hs. apply N.eqb_eq in Hs. subst c.
  unfold path1_of at 1. rewrite showg_chr. cbn [app]. rewrite quote_point_slash.
  change (slash :: showg (fun c => [c]) bracesf its) with (path1_of (PChr slash :: its)).
  unfold path1_of, path2_of. rewrite flat_map_showg. apply showg_ext. apply Forall_items.
  - intros c _. cbn [flat_map]. apply app_nil_r.
  - intros n e Hin. apply (fitems_var _ n e Hok) in Hin. unfold bracesf.
    apply (flat_map_braces qc n dot dot); try reflexivity; try (apply (name_nochr n e); auto).
    intros c Hc _. unfold qc. rewrite Hc. reflexivity.
Qed.

Lemma brc_qc c : flat_map brc (qc c) = rc c.
Proof.
  unfold qc, rc. destruct (N.eqb c dot); [reflexivity|]. cbn [flat_map]. apply app_nil_r.
Qed.
Lemma stage_brc its : forallb fitem_ok its = true -> flat_map brc (path2_of its) = path3_of its.
Proof.
  intros Hok. unfold path2_of, path3_of. rewrite flat_map_showg. apply showg_ext. apply Forall_items.
  - intros c _. apply brc_qc.
  - intros n e Hin. apply (fitems_var _ n e Hok) in Hin. unfold bracesf.
    apply (flat_map_braces brc n lbrack rbrack); try reflexivity; try (apply (name_nochr n e); auto).
    intros c H1 H2. unfold brc. rewrite H1, H2. reflexivity.
Qed.

(* --- structure of the flat item list --- *)
Lemma pitem_fitem it : pitem_ok it = true -> fitem_ok it = true.
Proof. destruct it as [c|n e]; cbn [pitem_ok fitem_ok]; [|auto]. intros H. unfold fchr_ok. rewrite H. reflexivity. Qed.
Lemma pitems_fitems l : forallb pitem_ok l = true -> forallb fitem_ok l = true.
Proof. apply forallb_impl. apply pitem_fitem. Qed.
Lemma opens_fitems ls : forallb (forallb pitem_ok) ls = true -> forallb fitem_ok (opens ls) = true.
Proof.
  induction ls as [|l ls IH]; [reflexivity|]. cbn [forallb]. intros H. apply andb_true_iff in H. destruct H as [Hl Hls].
  cbn [opens flat_map]. fold (opens ls). cbn [app forallb]. rewrite forallb_app, (pitems_fitems l Hl), (IH Hls). reflexivity.
Qed.
Lemma closers_fitems n : forallb fitem_ok (closers n) = true.
Proof. induction n as [|n IH]; [reflexivity|]. cbn [closers repeat forallb]. exact IH. Qed.
Lemma flat_fitems p : forallb pitem_ok (pp_req p) = true -> forallb (forallb pitem_ok) (pp_opts p) = true ->
  forallb fitem_ok (flat p) = true.
Proof.
  intros Hr Ho. unfold flat. rewrite !forallb_app, (pitems_fitems _ Hr), (opens_fitems _ Ho), closers_fitems. reflexivity.
Qed.

Lemma vars_closers n : vars (closers n) = [].
Proof. induction n as [|n IH]; [reflexivity|]. exact IH. Qed.
Lemma vars_opens ls : vars (opens ls) = vars (concat ls).
Proof.
  induction ls as [|l ls IH]; [reflexivity|]. cbn [opens flat_map concat]. fold (opens ls).
  change (vars (PChr lbrack :: l ++ opens ls)) with (vars (l ++ opens ls)). rewrite !vars_app, IH. reflexivity.
Qed.
Lemma vars_flat p : vars (flat p) = vars (all_items p).
Proof. unfold flat, all_items. rewrite !vars_app, vars_closers, vars_opens, app_nil_r. reflexivity. Qed.

Fixpoint seg_end (seen : bool) (its : list pitem) : bool :=
  match its with
  | [] => seen
  | PChr c :: r => seg_end (if N.eqb c slash then false else seen) r
  | PVar _ _ :: r => seg_end true r
  end.
Lemma seg_ok_app a b : forall seen, seg_ok seen (a ++ b) = seg_ok seen a && seg_ok (seg_end seen a) b.
Proof.
  induction a as [|[c|n e] a IH]; intros seen; cbn [app seg_ok seg_end]; [reflexivity|apply IH|].
  rewrite IH. apply andb_assoc.
Qed.
Lemma seg_ok_closers n : forall seen, seg_ok seen (closers n) = true.
Proof. induction n as [|n IH]; intros seen; [reflexivity|]. cbn [closers repeat seg_ok]. change (N.eqb rbrack slash) with false. apply IH. Qed.
Lemma seg_ok_opens ls n : forall seen, seg_ok seen (opens ls ++ closers n) = seg_ok seen (concat ls).
Proof.
  induction ls as [|l ls IH]; intros seen; [apply seg_ok_closers|].
  cbn [opens flat_map concat]. fold (opens ls). cbn [app seg_ok]. change (N.eqb lbrack slash) with false. cbv iota.
  rewrite <- app_assoc, (seg_ok_app l (opens ls ++ closers n)), (seg_ok_app l (concat ls)), IH. reflexivity.
Qed.
Lemma seg_ok_flat p : seg_ok false (flat p) = seg_ok false (all_items p).
Proof. unfold flat, all_items. rewrite (seg_ok_app (pp_req p) (opens _ ++ _)), (seg_ok_app (pp_req p) (concat _)), seg_ok_opens. reflexivity. Qed.

(* --- characters of the stage texts of a bracket-free item list --- *)
Lemma nochr_showg_safe x fc fv l : forallb pitem_ok l = true ->
  (forall c, is_safe c = true -> nochr x (fc c) = true) -> (forall n e, var_ok n e = true -> nochr x (fv n e) = true) ->
  nochr x (showg fc fv l) = true.
Proof.
  intros Hok Hc Hv. apply nochr_showg. rewrite forallb_forall in Hok. apply Forall_forall. intros [c|n e] Hin; cbn [item_rel].
  - apply Hc. apply (Hok _ Hin).
  - apply Hv. apply (Hok _ Hin).
Qed.
Lemma qc_nochr x c : is_safe c = true -> is_safe x = false -> N.eqb bslash x = false -> nochr x (qc c) = true.
Proof.
  intros Hc Hx Hb. unfold qc. destruct (N.eqb c dot) eqn:Ed.
  - apply N.eqb_eq in Ed. subst c. cbn [nochr forallb]. rewrite Hb.
    destruct (N.eqb dot x) eqn:E; [apply N.eqb_eq in E; subst x; discriminate|reflexivity].
  - cbn [nochr forallb]. destruct (N.eqb c x) eqn:E; [apply N.eqb_eq in E; subst x; congruence|reflexivity].
Qed.
Lemma path2_nochr x l : forallb pitem_ok l = true -> is_safe x = false -> N.eqb bslash x = false ->
  N.eqb lbrace x = false -> N.eqb rbrace x = false -> nochr x (path2_of l) = true.
Proof.
  intros Hok Hx Hb H1 H2. apply nochr_showg_safe; [exact Hok| |].
  - intros c Hc. apply qc_nochr; assumption.
  - intros n e Hv. unfold bracesf. apply braces_nochr; [|exact H1|exact H2]. apply (name_nochr n e x Hv).
    unfold is_safe in Hx. rewrite !orb_false_iff in Hx. tauto.
Qed.

Lemma count_ch_app x a b : count_ch x (a ++ b) = count_ch x a + count_ch x b.
Proof. induction a as [|c a IH]; [reflexivity|]. cbn [app count_ch]. rewrite IH. lia. Qed.
Lemma count_ch_none x s : nochr x s = true -> count_ch x s = 0.
Proof.
  induction s as [|c s IH]; [reflexivity|]. cbn [nochr forallb count_ch]. intros H. apply andb_true_iff in H.
  destruct H as [Hc Hs]. apply negb_true_iff in Hc. rewrite Hc. rewrite (IH Hs). reflexivity.
Qed.

Lemma path2_app a b : path2_of (a ++ b) = path2_of a ++ path2_of b.
Proof. apply showg_app. Qed.
Lemma path2_closers n : path2_of (closers n) = repeat rbrack n.
Proof. induction n as [|n IH]; [reflexivity|]. cbn [closers repeat]. unfold path2_of. rewrite showg_chr. fold (path2_of (repeat (PChr rbrack) n)). fold (closers n). rewrite IH. reflexivity. Qed.
Lemma path2_opens ls : forallb (forallb pitem_ok) ls = true ->
  nochr rbrack (path2_of (opens ls)) = true /\ count_ch lbrack (path2_of (opens ls)) = List.length ls.
Proof.
  induction ls as [|l ls IH]; [split; reflexivity|]. cbn [forallb]. intros H. apply andb_true_iff in H. destruct H as [Hl Hls].
  destruct (IH Hls) as [IH1 IH2]. cbn [opens flat_map]. fold (opens ls). cbn [app].
  unfold path2_of. rewrite showg_chr, showg_app. fold (path2_of l). fold (path2_of (opens ls)).
  change (qc lbrack) with [lbrack]. cbn [app]. split.
  - cbn [nochr forallb]. fold (nochr rbrack (path2_of l ++ path2_of (opens ls))). rewrite nochr_app, IH1.
    rewrite (path2_nochr rbrack l Hl); reflexivity.
  - cbn [count_ch List.length]. rewrite N.eqb_refl, count_ch_app, IH2.
    rewrite (count_ch_none lbrack (path2_of l)); [reflexivity|]. apply path2_nochr; auto.
Qed.

Lemma check_optional_flat p : forallb pitem_ok (pp_req p) = true -> forallb (forallb pitem_ok) (pp_opts p) = true ->
  check_optional (path2_of (flat p)) = Ok (path3_of (flat p)).
Proof.
  intros Hr Ho. unfold check_optional.
  change (flat_map _ (path2_of (flat p))) with (flat_map brc (path2_of (flat p))). rewrite (stage_brc _ (flat_fitems p Hr Ho)).
  unfold flat. rewrite app_assoc, path2_app, path2_closers.
  set (X := path2_of (pp_req p ++ opens (pp_opts p))).
  destruct (path2_opens _ Ho) as [H1 H2].
  assert (HX: nochr rbrack X = true).
  { unfold X. rewrite path2_app, nochr_app, H1, (path2_nochr rbrack _ Hr); reflexivity. }
  rewrite (de_repeat (fun c : ch => N.eqb c rbrack) X rbrack _ eq_refl). rewrite (de_none (fun c : ch => N.eqb c rbrack) X HX).
  rewrite app_length, repeat_length.
  replace (List.length X + List.length (pp_opts p) - List.length X) with (List.length (pp_opts p)) by lia.
  unfold X. rewrite path2_app, count_ch_app, H2.
  rewrite (count_ch_none lbrack (path2_of (pp_req p))) by (apply path2_nochr; auto).
  cbn [Nat.add]. rewrite Nat.eqb_refl. reflexivity.
Qed.

(* --- the literal prefix and the position arithmetic of parseParamRoute --- *)
Fixpoint litpre (its : list pitem) : str := match its with PChr c :: r => c :: litpre r | _ => [] end.

Lemma min_pos_lemma pre tail t' : pre <> [] -> nochr lbrace pre = true -> nochr lbrack pre = true ->
  (tail = lbrace :: t' \/ (tail = lbrack :: t' /\ exists i, index_of lbrace t' = Some i)) ->
  exists a, index_of lbrace (pre ++ tail) = Some a /\
    firstn (match index_of lbrack (pre ++ tail) with
            | Some (S o) => if Nat.ltb (S o) a then S o else a
            | _ => a end) (pre ++ tail) = pre.
Proof.
  intros Hne H1 H2 [->|[-> [i Hi]]].
  - exists (List.length pre). split.
    + rewrite index_of_here by exact H1. reflexivity.
    + rewrite (index_of_app lbrack pre _ H2). cbn [index_of]. change (N.eqb lbrace lbrack) with false. cbv iota.
      destruct (index_of lbrack t') as [j|].
      * destruct (List.length pre + S j) as [|o] eqn:E; [apply firstn_len_app|].
        destruct (Nat.ltb_spec (S o) (List.length pre)); [lia|]. apply firstn_len_app.
      * apply firstn_len_app.
  - exists (List.length pre + S i). split.
    + rewrite (index_of_app lbrace pre _ H1). cbn [index_of]. change (N.eqb lbrack lbrace) with false. rewrite Hi. reflexivity.
    + rewrite index_of_here by exact H2. destruct pre as [|x pre']; [congruence|]. cbn [List.length].
      destruct (Nat.ltb_spec (S (List.length pre')) (S (List.length pre') + S i)); [|lia].
      change (S (List.length pre')) with (List.length (x :: pre')). apply firstn_len_app.
Qed.

Lemma path1_chars s r : path1_of (map PChr s ++ r) = s ++ path1_of r.
Proof. induction s as [|c s IH]; [reflexivity|]. cbn [map app]. unfold path1_of. rewrite showg_chr. fold (path1_of (map PChr s ++ r)). rewrite IH. reflexivity. Qed.

Lemma req_split req : (exists n e r', req = map PChr (litpre req) ++ PVar n e :: r') \/ req = map PChr (litpre req).
Proof.
  induction req as [|[c|n e] req IH].
  - right. reflexivity.
  - cbn [litpre map app]. destruct IH as [(n & e & r' & E)|E].
    + left. exists n, e, r'. rewrite <- E. reflexivity.
    + right. rewrite <- E. reflexivity.
  - left. exists n, e, req. reflexivity.
Qed.
Lemma litpre_safe req : forallb pitem_ok req = true -> forallb is_safe (litpre req) = true.
Proof.
  induction req as [|[c|n e] req IH]; [reflexivity| |reflexivity]. cbn [forallb pitem_ok litpre]. intros H.
  apply andb_true_iff in H. destruct H as [Hc Hr]. rewrite Hc, (IH Hr). reflexivity.
Qed.
Lemma safe_nochr x s : forallb is_safe s = true -> is_safe x = false -> nochr x s = true.
Proof. intros Hn Hx. apply (forallb_nochr is_safe); [|exact Hn]. intros c Hc E. subst c. congruence. Qed.

Lemma vars_chars s : vars (map PChr s) = [].
Proof. induction s as [|c s IH]; [reflexivity|]. exact IH. Qed.
Lemma index_lbrace_vars its : vars its <> [] -> exists i, index_of lbrace (path1_of its) = Some i.
Proof.
  induction its as [|[c|n e] its IH]; intros H; [exfalso; apply H; reflexivity| |].
  - unfold path1_of. rewrite showg_chr. fold (path1_of its). cbn [app index_of]. destruct (N.eqb c lbrace); [eauto|].
    destruct (IH H) as [i ->]. eauto.
  - unfold path1_of. rewrite showg_var. unfold bracesf, braces. cbn [app index_of]. rewrite N.eqb_refl. eauto.
Qed.

Lemma match_cons {A B} (l : list A) (X Y : B) : l <> [] -> match l with [] => X | _ :: _ => Y end = Y.
Proof. destruct l; [congruence|reflexivity]. Qed.

Lemma replace_pairs_nil : forall f s, replace_pairs f [] s = s.
Proof. induction f as [|f IH]; intros s; [reflexivity|]. destruct s as [|c r]; [reflexivity|]. cbn [replace_pairs match_pair]. rewrite IH. reflexivity. Qed.
Lemma raw_choice (raw : list (str * str)) path : match raw with [] => path | _ :: _ => replacer raw path end = replacer raw path.
Proof. destruct raw; [|reflexivity]. unfold replacer. symmetry. apply replace_pairs_nil. Qed.

Lemma good_mkinfo V : forallb v_good (map mkinfo V) = true.
Proof. induction V as [|v V IH]; [reflexivity|]. cbn [map forallb mkinfo v_good]. exact IH. Qed.
Lemma raw_mkinfo V : opt_list (map v_raw (map mkinfo V)) = raw_pairs V.
Proof. induction V as [|[n [e|]] V IH]; [reflexivity| |]; cbn [map opt_list mkinfo v_raw raw_pairs flat_map fst snd app]; fold (raw_pairs V); rewrite IH; reflexivity. Qed.
Lemma pair_mkinfo V : map v_pair (map mkinfo V) = re_pairs V.
Proof. rewrite map_map. reflexivity. Qed.
Lemma name_mkinfo V : map v_name (map mkinfo V) = map fst V.
Proof. rewrite map_map. reflexivity. Qed.

(* --- well-formed printable patterns --- *)
Record ppat_wf (p : ppat) : Prop := {
  wf_slash : starts_slash (pp_req p) = true;                         (* the text starts with "/" *)
  wf_req : forallb pitem_ok (pp_req p) = true;
  wf_opts : forallb (forallb pitem_ok) (pp_opts p) = true;
  wf_seg : seg_ok false (all_items p) = true                         (* one variable per path segment *)
}.

Lemma all_vars_show p : ppat_wf p ->
  all_vars (show_ppat p) = map (fun v => var_text (fst v) (snd v)) (vars (flat p)).
Proof.
  intros [Hs Hr Ho Hseg]. unfold all_vars, show_ppat. apply (find_vars_items (flat p) _ false).
  - apply flat_fitems; assumption.
  - rewrite seg_ok_flat. exact Hseg.
  - lia.
Qed.

Lemma flat_starts_slash p : starts_slash (pp_req p) = true -> starts_slash (flat p) = true.
Proof. unfold flat. destruct (pp_req p) as [|[c|n e] r]; try discriminate. auto. Qed.

Lemma rc_qc_safe c : is_safe c = true -> rc c = qc c.
Proof.
  intros H. apply safe_cases in H. unfold rc, qc, brc. destruct (N.eqb c dot); [reflexivity|]. ceq. reflexivity.
Qed.

Lemma opt_stage p : ppat_wf p ->
  match index_of lbrack (path1_of (flat p)) with
  | Some (S _) => check_optional (path2_of (flat p))
  | _ => Ok (path2_of (flat p))
  end = Ok (path3_of (flat p)).
Proof.
  intros [Hs Hr Ho Hseg].
  destruct (index_of lbrack (path1_of (flat p))) as [[|o]|] eqn:E.
  - exfalso. pose proof (flat_starts_slash p Hs) as Hf. destruct (flat p) as [|[c|n e] r]; try discriminate.
    cbn [starts_slash] in Hf. apply N.eqb_eq in Hf. subst c. unfold path1_of in E. rewrite showg_chr in E.
    cbn [app index_of] in E. change (N.eqb slash lbrack) with false in E. cbv iota in E.
    destruct (index_of lbrack (showg (fun c => [c]) bracesf r)); discriminate.
  - apply check_optional_flat; assumption.
  - assert (Hn: pp_opts p = []).
    { destruct (pp_opts p) as [|l ls] eqn:Eo; [reflexivity|]. exfalso. unfold flat in E. rewrite Eo in E.
      cbn [opens flat_map app] in E. unfold path1_of in E. rewrite showg_app, showg_chr in E. cbn [app] in E.
      rewrite index_of_here in E; [discriminate|].
      apply nochr_showg_safe; [exact Hr| |].
      - intros c Hc. apply safe_cases in Hc. cbn [nochr forallb]. ceq. reflexivity.
      - intros n e Hv. unfold bracesf. apply braces_nochr; try reflexivity. apply (name_nochr n e lbrack Hv eq_refl). }
    unfold flat. rewrite Hn. cbn [opens flat_map closers List.length repeat]. rewrite !app_nil_r.
    f_equal. unfold path2_of, path3_of. apply showg_ext. rewrite forallb_forall in Hr. apply Forall_forall.
    intros [c|n e] Hin; cbn [item_rel]; [|reflexivity]. symmetry. apply rc_qc_safe. apply (Hr _ Hin).
Qed.

Lemma litpre_facts p : ppat_wf p -> litpre (pp_req p) <> [] /\ nochr lbrace (litpre (pp_req p)) = true /\ nochr lbrack (litpre (pp_req p)) = true.
Proof.
  intros [Hs Hr Ho Hseg]. split; [|split].
  - destruct (pp_req p) as [|[c|n e] r]; discriminate.
  - apply safe_nochr; [apply litpre_safe; exact Hr|reflexivity].
  - apply safe_nochr; [apply litpre_safe; exact Hr|reflexivity].
Qed.

Lemma path1_split p : ppat_wf p -> vars (all_items p) <> [] ->
  exists tail t', path1_of (flat p) = litpre (pp_req p) ++ tail /\
    (tail = lbrace :: t' \/ (tail = lbrack :: t' /\ exists i, index_of lbrace t' = Some i)).
Proof.
  intros Hwf Hv. unfold flat. unfold all_items in Hv. remember (litpre (pp_req p)) as pre eqn:Epre.
  destruct (req_split (pp_req p)) as [(n & e & r' & E)|E]; rewrite <- Epre in E; rewrite E in *; clear E Epre.
  - rewrite <- app_assoc, path1_chars. cbn [app]. unfold path1_of at 1. rewrite showg_var.
    unfold bracesf at 1. unfold braces. cbn [app]. eexists. eexists. split; [reflexivity|]. left. reflexivity.
  - rewrite vars_app in Hv. rewrite vars_chars in Hv. cbn [app] in Hv.
    destruct (pp_opts p) as [|l ls]; [exfalso; apply Hv; reflexivity|].
    rewrite path1_chars. cbn [opens flat_map app]. fold (opens ls).
    unfold path1_of at 1. rewrite showg_chr. cbn [app]. eexists. eexists. split; [reflexivity|]. right. split; [reflexivity|].
    apply index_lbrace_vars. rewrite <- app_assoc, !vars_app, vars_closers, vars_opens, app_nil_r.
    cbn [concat] in Hv. rewrite vars_app in Hv. exact Hv.
Qed.

(* (c) parseParamRoute on the printed pattern *)
Theorem compile_dyn_show p : ppat_wf p -> vars (all_items p) <> [] ->
  compile_dyn (show_ppat p) =
  Ok {| d_start := fst (start_and_first (litpre (pp_req p)));
        d_first := snd (start_and_first (litpre (pp_req p)));
        d_retext := replacer (re_pairs (vars (flat p))) (path3_of (flat p));
        d_names := pnames (flat p) |}.
Proof.
  intros Hwf Hv. pose proof Hwf as [Hs Hr Ho Hseg].
  pose proof (flat_fitems p Hr Ho) as Hok.
  assert (HV: vars (flat p) <> []) by (rewrite vars_flat; exact Hv).
  unfold compile_dyn. cbv zeta. rewrite (all_vars_show p Hwf).
  assert (Hinfo: map var_info (map (fun v => var_text (fst v) (snd v)) (vars (flat p))) = map mkinfo (vars (flat p))).
  { rewrite map_map. apply map_ext_in. intros [n e] Hin. cbn [fst snd]. apply var_info_text. apply (fitems_var _ n e Hok Hin). }
  rewrite Hinfo. rewrite match_cons by (intros E; apply map_eq_nil in E; contradiction).
  rewrite good_mkinfo. cbn [negb]. cbv iota.
  rewrite raw_mkinfo, pair_mkinfo, name_mkinfo.
  rewrite raw_choice.
  change (replacer (raw_pairs (vars (flat p))) (show_ppat p)) with (replacer (raw_pairs (vars (flat p))) (show_items (flat p))).
  rewrite (stage1 _ Hok).
  destruct (path1_split p Hwf Hv) as (tail & t' & Ep & Ht).
  destruct (litpre_facts p Hwf) as (Hne & Hl1 & Hl2).
  destruct (min_pos_lemma _ tail t' Hne Hl1 Hl2 Ht) as (a & Ea & Ef).
  rewrite <- Ep in Ea, Ef. rewrite Ea. rewrite Ef.
  rewrite (stage2 _ Hok (flat_starts_slash p Hs)). rewrite (opt_stage p Hwf).
  destruct (start_and_first (litpre (pp_req p))) as [st fi]. cbn [bind fst snd]. reflexivity.
Qed.

(* ================================================================================================ *)
(* 6. (b) the grammar-level parser on the printed pattern                                             *)
(* ================================================================================================ *)

Definition tok_of (it : pitem) : tok :=
  match it with
  | PChr c => if N.eqb c lbrack then TOpen else if N.eqb c rbrack then TClose else TLit c
  | PVar n e => TVar (var_inner n e)
  end.

Lemma tokenize_items : forall its f seen, forallb fitem_ok its = true -> seg_ok seen its = true ->
  List.length (show_items its) < f -> tokenize f (show_items its) = Some (map tok_of its).
Proof.
  induction its as [|[c|n e] its IH]; intros f seen Hok Hseg Hf; (destruct f as [|f]; [lia|]); [reflexivity| |].
  - cbn [forallb fitem_ok] in Hok. apply andb_true_iff in Hok. destruct Hok as [Hc Hok]. apply fchr_cases in Hc.
    unfold show_items in *. rewrite showg_chr in *. fold show_items in *. cbn [app List.length] in *. cbn [tokenize].
    cbn [seg_ok] in Hseg. rewrite (IH f _ Hok Hseg) by lia. cbn [map tok_of].
    replace (N.eqb c lbrace) with false by (symmetry; apply N.eqb_neq; uc; lia).
    destruct (N.eqb c lbrack) eqn:E1; [reflexivity|]. destruct (N.eqb c rbrack) eqn:E2; [reflexivity|].
    apply N.eqb_neq in E1, E2. unfold is_meta. cbn [existsb]. ceq. reflexivity.
  - cbn [forallb fitem_ok] in Hok. apply andb_true_iff in Hok. destruct Hok as [Hv Hok].
    cbn [seg_ok] in Hseg. apply andb_true_iff in Hseg. destruct Hseg as [_ Hseg].
    unfold show_items in *. rewrite showg_var in *. fold show_items in *.
    unfold var_text, braces in *. cbn [app] in *. rewrite <- app_assoc in *. cbn [app] in *.
    cbn [tokenize]. rewrite N.eqb_refl.
    destruct (var_scan (var_inner n e) (show_items its) (var_inner_noslash n e Hv) (seg_tail_ok its Hok Hseg)) as [E1 E2].
    rewrite E1, E2. destruct (var_inner_cons n e Hv) as (a & t & Ei). rewrite Ei at 1. rewrite seg_run_eq.
    rewrite (IH f true Hok Hseg); [reflexivity|].
    cbn [List.length] in Hf. rewrite app_length in Hf. cbn [List.length] in Hf. lia.
Qed.

Definition plain_tok (t : tok) : bool := match t with TLit _ | TVar _ => true | _ => false end.
Lemma plain_toks l : forallb pitem_ok l = true -> forallb plain_tok (map tok_of l) = true.
Proof.
  induction l as [|[c|n e] l IH]; [reflexivity| |]; cbn [forallb pitem_ok map tok_of]; intros H; apply andb_true_iff in H; destruct H as [Hc Hl].
  - apply safe_cases in Hc. ceq. cbn [plain_tok andb]. apply IH. exact Hl.
  - cbn [plain_tok andb]. apply IH. exact Hl.
Qed.
Lemma take_until_open_plain T : forallb plain_tok T = true -> take_until_open T = (T, None).
Proof.
  induction T as [|t T IH]; [reflexivity|]. cbn [forallb]. intros H. apply andb_true_iff in H. destruct H as [Ht HT].
  cbn [take_until_open]. rewrite (IH HT). destruct t; try discriminate; reflexivity.
Qed.
Lemma take_until_open_at T X : forallb plain_tok T = true -> take_until_open (T ++ TOpen :: X) = (T, Some X).
Proof.
  induction T as [|t T IH]; [reflexivity|]. cbn [forallb]. intros H. apply andb_true_iff in H. destruct H as [Ht HT].
  cbn [app take_until_open]. rewrite (IH HT). destruct t; try discriminate; reflexivity.
Qed.

Definition otoks (ls : list (list pitem)) : list tok := flat_map (fun l => TOpen :: map tok_of l) ls.

Lemma split_levels_flat : forall ls f l0, forallb pitem_ok l0 = true -> forallb (forallb pitem_ok) ls = true ->
  List.length ls < f ->
  split_levels f (map tok_of l0 ++ otoks ls ++ repeat TClose (List.length ls)) = Some (map tok_of l0 :: map (map tok_of) ls).
Proof.
  induction ls as [|l ls IH]; intros f l0 H0 Hls Hf; (destruct f as [|f]; [lia|]).
  - cbn [otoks flat_map List.length repeat app map]. rewrite app_nil_r. cbn [split_levels].
    rewrite (take_until_open_plain _ (plain_toks l0 H0)). reflexivity.
  - cbn [forallb] in Hls. apply andb_true_iff in Hls. destruct Hls as [Hl Hls].
    cbn [otoks flat_map List.length]. fold (otoks ls). cbn [app]. cbn [split_levels].
    rewrite (take_until_open_at _ _ (plain_toks l0 H0)).
    cbn [repeat]. rewrite repeat_cons. rewrite app_assoc. rewrite rev_unit. rewrite rev_involutive.
    rewrite <- app_assoc. rewrite (IH f l Hl Hls) by (cbn [List.length] in Hf; lia). reflexivity.
Qed.

(* items *)
Definition prepend (s : str) (its : list item) : list item := fold_right cons_lit its s.
Lemma prepend_snoc s c its : prepend (s ++ [c]) its = prepend s (cons_lit c its).
Proof. unfold prepend. rewrite fold_right_app. reflexivity. Qed.
Definition not_lit_head (its : list item) : Prop := match its with Lit _ :: _ => False | _ => True end.
Lemma prepend_lit s its : s <> [] -> not_lit_head its -> prepend s its = Lit s :: its.
Proof.
  intros Hne Hh. induction s as [|c s IH]; [congruence|]. destruct s as [|c' s'].
  - cbn [prepend fold_right]. destruct its as [|[x|n r] its]; cbn [cons_lit]; try reflexivity. contradiction.
  - change (prepend (c :: c' :: s') its) with (cons_lit c (prepend (c' :: s') its)). rewrite IH by discriminate. reflexivity.
Qed.

Lemma var_of_inner n v : var_ok n v = true -> var_of (var_inner n v) = Some (Var n (sre_rx (vsre n v))).
Proof.
  intros H. pose proof (vsre_ok n v H) as Hsre. destruct (var_name_alnum n v H) as [Hn _]. unfold var_of.
  destruct v as [e|]; cbn [vsre] in *.
  - rewrite (split_colon_inner n e H). apply andb_true_iff in H. destruct H as [_ He].
    rewrite (trim_space_none _ (rchr_nospace _ (show_sre_rchr e He))), (trim_space_none n (alnum_nospace n Hn)).
    rewrite (parse_show_sre e Hsre). reflexivity.
  - cbn [var_inner]. rewrite (split_colon_name n Hn). rewrite <- def_sre_text, (parse_show_sre _ Hsre). reflexivity.
Qed.

Lemma items_of_toks : forall l lit, forallb pitem_ok l = true ->
  items_of (map tok_of l) lit = Some (prepend (rev lit) (to_items l)).
Proof.
  assert (Hflush: forall lit rest, not_lit_head rest ->
            match lit with [] => rest | _ :: _ => Lit (rev lit) :: rest end = prepend (rev lit) rest).
  { intros lit rest Hr. destruct lit as [|c lit]; [reflexivity|]. symmetry. apply prepend_lit; [|exact Hr].
    cbn [rev]. intros E. apply app_eq_nil in E. destruct E; discriminate. }
  induction l as [|[c|n e] l IH]; intros lit H.
  - cbn [map items_of to_items]. f_equal. apply Hflush. exact I.
  - cbn [forallb pitem_ok] in H. apply andb_true_iff in H. destruct H as [Hc Hl]. apply safe_cases in Hc.
    cbn [map tok_of]. ceq. cbn [items_of]. rewrite (IH _ Hl). cbn [rev to_items]. rewrite prepend_snoc. reflexivity.
  - cbn [forallb pitem_ok] in H. apply andb_true_iff in H. destruct H as [Hv Hl].
    cbn [map tok_of items_of]. rewrite (var_of_inner n e Hv), (IH [] Hl). cbn [rev to_items]. f_equal.
    apply (Hflush lit (Var n (sre_rx (vsre n e)) :: prepend [] (to_items l))). exact I.
Qed.

Lemma all_some_levels ls : forallb (forallb pitem_ok) ls = true ->
  all_some (map (fun o => items_of o []) (map (map tok_of) ls)) = Some (map to_items ls).
Proof.
  induction ls as [|l ls IH]; [reflexivity|]. cbn [forallb]. intros H. apply andb_true_iff in H. destruct H as [Hl Hls].
  cbn [map all_some]. rewrite (items_of_toks l [] Hl), (IH Hls). reflexivity.
Qed.

Lemma toks_flat p : map tok_of (flat p) = map tok_of (pp_req p) ++ otoks (pp_opts p) ++ repeat TClose (List.length (pp_opts p)).
Proof.
  unfold flat. rewrite !map_app. f_equal. f_equal.
  - induction (pp_opts p) as [|l ls IH]; [reflexivity|]. cbn [opens flat_map otoks]. fold (opens ls). fold (otoks ls).
    cbn [app map tok_of]. rewrite N.eqb_refl. rewrite map_app, IH. reflexivity.
  - induction (List.length (pp_opts p)) as [|n IH]; [reflexivity|]. cbn [closers repeat map tok_of]. fold (closers n). rewrite IH. reflexivity.
Qed.

Theorem parse_pat_show p : ppat_wf p -> parse_pat (show_ppat p) = Some (to_pat p).
Proof.
  intros [Hs Hr Ho Hseg]. unfold parse_pat, show_ppat.
  rewrite (tokenize_items (flat p) _ false); [|apply flat_fitems; assumption|rewrite seg_ok_flat; exact Hseg|lia].
  rewrite toks_flat. rewrite split_levels_flat; [|exact Hr|exact Ho|].
  - rewrite (items_of_toks _ [] Hr), (all_some_levels _ Ho). reflexivity.
  - rewrite !app_length, repeat_length. lia.
Qed.

(* ================================================================================================ *)
(* 7. (d) parsing the regex text of the route                                                         *)
(* ================================================================================================ *)

Definition nv (l : list pitem) : nat := List.length (vars l).
Fixpoint prx_items (its : list pitem) (g : nat) (tail : rx) : rx :=
  match its with
  | [] => tail
  | PChr c :: r => Cat (Chr c) (prx_items r g tail)
  | PVar n e :: r => Cat (Grp g (sre_rx (vsre n e))) (prx_items r (S g) tail)
  end.
Fixpoint prx_levels (ls : list (list pitem)) (g : nat) : rx :=
  match ls with
  | [] => Eps
  | l :: r => Cat (Opt (prx_items l g (prx_levels r (g + nv l)))) Eps
  end.
(* the tree the regex parser builds for the route *)
Definition prx (p : ppat) : rx := prx_items (pp_req p) 0 (prx_levels (pp_opts p) (nv (pp_req p))).

Fixpoint nested (ls : list (list pitem)) : str :=
  match ls with [] => [] | l :: r => opt_open ++ retext_of l ++ nested r ++ opt_close end.

Lemma retext_app a b : retext_of (a ++ b) = retext_of a ++ retext_of b.
Proof. apply showg_app. Qed.
Lemma retext_closers_S n : retext_of (closers (S n)) = retext_of (closers n) ++ opt_close.
Proof. unfold closers. cbn [repeat]. rewrite repeat_cons. rewrite retext_app. reflexivity. Qed.
Lemma retext_nested ls : retext_of (opens ls ++ closers (List.length ls)) = nested ls.
Proof.
  induction ls as [|l ls IH]; [reflexivity|]. cbn [opens flat_map List.length nested]. fold (opens ls).
  rewrite retext_app, retext_closers_S. cbn [app]. unfold retext_of at 1. rewrite showg_chr, showg_app.
  fold (retext_of l). fold (retext_of (opens ls)). change (rc lbrack) with opt_open.
  rewrite <- IH, retext_app, <- !app_assoc. reflexivity.
Qed.
Lemma retext_flat p : retext_of (flat p) = retext_of (pp_req p) ++ nested (pp_opts p).
Proof. unfold flat. rewrite retext_app, retext_nested. reflexivity. Qed.

Lemma retext_hd l rest : forallb pitem_ok l = true -> nop rest = true ->
  nop (retext_of l ++ rest) = true /\ (l <> [] -> cat_stop (retext_of l ++ rest) = false).
Proof.
  intros Hok Hn. destruct l as [|[c|n e] l]; [split; [exact Hn|congruence]| |].
  - cbn [forallb pitem_ok] in Hok. apply andb_true_iff in Hok. destruct Hok as [Hc _]. apply safe_cases in Hc.
    unfold retext_of. rewrite showg_chr. unfold rc, brc. destruct (N.eqb c dot) eqn:Ed.
    + split; reflexivity.
    + apply N.eqb_neq in Ed. unfold dot in Ed. ceq. cbn [app nop cat_stop]. ceq. split; reflexivity.
  - unfold retext_of. rewrite showg_var. split; reflexivity.
Qed.

Lemma nop_sre e x : forallb (fun p => atom_wf (fst p)) e = true ->
  match show_sre e ++ c_rpar :: x with c :: _ => N.eqb c c_quest = false | [] => False end.
Proof.
  intros H. destruct e as [|p e]; [reflexivity|]. cbn [forallb] in H. apply andb_true_iff in H. destruct H as [Hp _].
  unfold show_sre. cbn [flat_map]. rewrite <- app_assoc.
  destruct (piece_hd p (flat_map show_piece e ++ c_rpar :: x) Hp) as [Hn Hc].
  destruct (show_piece p ++ flat_map show_piece e ++ c_rpar :: x) as [|c r]; [discriminate|].
  cbn [nop] in Hn. apply negb_true_iff in Hn. rewrite !orb_false_iff in Hn. tauto.
Qed.

Lemma cat_ok_items : forall l rest g m b s2 g2, forallb pitem_ok l = true ->
  ok p_cat m rest (g + nv l) (b, s2, g2) -> 4 <= m -> nop rest = true ->
  ok p_cat (List.length (retext_of l) + m) (retext_of l ++ rest) g (prx_items l g b, s2, g2).
Proof.
  induction l as [|[c|n e] l IH]; intros rest g m b s2 g2 Hok Hrest Hm Hn.
  - unfold nv in Hrest. cbn [vars flat_map List.length] in Hrest. rewrite Nat.add_0_r in Hrest. exact Hrest.
  - cbn [forallb pitem_ok] in Hok. apply andb_true_iff in Hok. destruct Hok as [Hc Hok].
    change (nv (PChr c :: l)) with (nv l) in Hrest.
    pose proof (IH rest g m b s2 g2 Hok Hrest Hm Hn) as Htail.
    destruct (retext_hd l rest Hok Hn) as [Hnl _].
    unfold retext_of. rewrite showg_chr. fold (retext_of l). cbn [prx_items]. apply safe_cases in Hc.
    unfold rc, brc. destruct (N.eqb c dot) eqn:Ed.
    + apply N.eqb_eq in Ed. subst c. cbn [app List.length]. eapply ok_mono.
      * eapply cat_ok_cons; [reflexivity| |exact Htail].
        apply rep_ok_none; [apply atom_ok_esc; reflexivity|exact Hnl].
      * lia.
    + apply N.eqb_neq in Ed. unfold dot in Ed. ceq. cbn [app List.length]. eapply ok_mono.
      * eapply cat_ok_cons; [| |exact Htail].
        -- cbn [cat_stop]. ceq. reflexivity.
        -- apply rep_ok_none; [apply atom_ok_chr|exact Hnl]. unfold plain. cbn [existsb]. ceq. reflexivity.
      * lia.
  - cbn [forallb pitem_ok] in Hok. apply andb_true_iff in Hok. destruct Hok as [Hv Hok].
    pose proof (vsre_ok n e Hv) as He. unfold sre_ok in He.
    change (nv (PVar n e :: l)) with (S (nv l)) in Hrest. rewrite Nat.add_succ_r in Hrest.
    pose proof (IH rest (S g) m b s2 g2 Hok Hrest Hm Hn) as Htail.
    destruct (retext_hd l rest Hok Hn) as [Hnl _].
    unfold retext_of. rewrite showg_var. fold (retext_of l). cbn [prx_items].
    unfold parensf, parens. cbn [app]. rewrite <- !app_assoc. cbn [app]. eapply ok_mono.
    + eapply cat_ok_cons; [reflexivity| |exact Htail].
      apply rep_ok_none; [|exact Hnl]. apply atom_ok_grp; [|apply nop_sre; exact He].
      apply (alt_ok_sre (vsre n e) (c_rpar :: retext_of l ++ rest) (S g) He). reflexivity.
    + cbn [List.length]. rewrite !app_length. cbn [List.length]. lia.
Qed.

Definition nvs (ls : list (list pitem)) : nat := List.length (vars (concat ls)).

Lemma nested_hd ls rest : cat_stop rest = true -> nop (nested ls ++ rest) = true.
Proof. intros H. destruct ls as [|l ls]; [apply cat_stop_nop; exact H|reflexivity]. Qed.

Lemma cat_ok_levels : forall ls rest g, forallb (forallb pitem_ok) ls = true -> cat_stop rest = true ->
  ok p_cat (List.length (nested ls) + 5) (nested ls ++ rest) g (prx_levels ls g, rest, g + nvs ls).
Proof.
  induction ls as [|l ls IH]; intros rest g Hok Hstop.
  - cbn [nested app prx_levels List.length]. unfold nvs. cbn [concat vars flat_map List.length]. rewrite Nat.add_0_r.
    eapply ok_mono; [apply cat_ok_stop; exact Hstop|lia].
  - cbn [forallb] in Hok. apply andb_true_iff in Hok. destruct Hok as [Hl Hls].
    assert (Eg: g + nvs (l :: ls) = g + nv l + nvs ls).
    { unfold nvs, nv. cbn [concat]. rewrite vars_app, app_length. lia. }
    rewrite Eg. cbn [nested prx_levels]. unfold opt_open, opt_close. cbn [app]. rewrite <- !app_assoc. cbn [app].
    set (rest' := c_rpar :: c_quest :: rest).
    pose proof (IH rest' (g + nv l) Hls eq_refl) as Hin.
    pose proof (cat_ok_items l (nested ls ++ rest') g _ _ _ _ Hl Hin ltac:(lia) (nested_hd ls rest' eq_refl)) as Hitems.
    pose proof (alt_ok_cat _ _ _ _ _ _ Hitems eq_refl) as Halt.
    pose proof (atom_ok_ncgrp _ _ _ _ _ _ Halt) as Hatom.
    pose proof (rep_ok_quest _ _ _ _ _ _ Hatom (cat_stop_nop _ Hstop)) as Hrep.
    eapply ok_mono.
    + eapply cat_ok_cons; [reflexivity|exact Hrep|apply cat_ok_stop; exact Hstop].
    + cbn [List.length]. rewrite !app_length. cbn [List.length]. lia.
Qed.

Theorem parse_retext p : forallb pitem_ok (pp_req p) = true -> forallb (forallb pitem_ok) (pp_opts p) = true ->
  parse_rx (retext_of (flat p)) = POk (prx p, nv (pp_req p) + nvs (pp_opts p)).
Proof.
  intros Hr Ho. rewrite retext_flat. unfold parse_rx.
  pose proof (cat_ok_levels (pp_opts p) [] (0 + nv (pp_req p)) Ho eq_refl) as Hl.
  pose proof (cat_ok_items (pp_req p) (nested (pp_opts p) ++ []) 0 _ _ _ _ Hr Hl ltac:(lia) (nested_hd _ [] eq_refl)) as Hi.
  pose proof (alt_ok_cat _ _ _ _ _ _ Hi eq_refl) as Ha. rewrite app_nil_r in Ha.
  rewrite Ha; [reflexivity|]. rewrite !app_length. lia.
Qed.

(* --- the parsed tree is equivalent to pat_rx of the grammar-level AST --- *)
Lemma items_rx_lit s r i : items_rx (Lit s :: r) i = (Cat (lit_rx s) (fst (items_rx r i)), snd (items_rx r i)).
Proof. cbn [items_rx]. destruct (items_rx r i). reflexivity. Qed.
Lemma items_rx_var n re r i : items_rx (Var n re :: r) i = (Cat (Grp i re) (fst (items_rx r (S i))), snd (items_rx r (S i))).
Proof. cbn [items_rx]. destruct (items_rx r (S i)). reflexivity. Qed.
Lemma opts_rx_cons o r i : opts_rx (o :: r) i =
  (Opt (Cat (fst (items_rx o i)) (fst (opts_rx r (snd (items_rx o i))))), snd (opts_rx r (snd (items_rx o i)))).
Proof. cbn [opts_rx]. destruct (items_rx o i) as [a j]. cbn [fst snd]. destruct (opts_rx r j). reflexivity. Qed.

Lemma items_rx_cons_lit c its i :
  req (fst (items_rx (cons_lit c its) i)) (Cat (Chr c) (fst (items_rx its i))) /\
  snd (items_rx (cons_lit c its) i) = snd (items_rx its i).
Proof.
  destruct its as [|[s|n re] its]; cbn [cons_lit]; rewrite ?items_rx_lit; cbn [fst snd lit_rx]; split; try reflexivity;
    intros A s0 c0 k; reflexivity.
Qed.

Lemma items_rx_to_items : forall l g T,
  req (Cat (fst (items_rx (to_items l) g)) T) (prx_items l g T) /\ snd (items_rx (to_items l) g) = g + nv l.
Proof.
  induction l as [|[c|n e] l IH]; intros g T.
  - cbn [to_items items_rx fst snd prx_items]. split; [apply req_cat_eps_l|unfold nv; cbn; lia].
  - cbn [to_items prx_items]. destruct (items_rx_cons_lit c (to_items l) g) as [H1 H2]. destruct (IH g T) as [IH1 IH2].
    split; [|rewrite H2; exact IH2].
    eapply req_trans; [apply req_cat; [exact H1|apply req_refl]|].
    eapply req_trans; [apply req_cat_assoc|]. apply req_cat; [apply req_refl|exact IH1].
  - cbn [to_items prx_items]. rewrite items_rx_var. cbn [fst snd]. destruct (IH (S g) T) as [IH1 IH2].
    split; [|rewrite IH2; unfold nv; cbn [vars flat_map app List.length]; fold (vars l); lia].
    eapply req_trans; [apply req_cat_assoc|]. apply req_cat; [apply req_refl|exact IH1].
Qed.

Lemma opts_rx_levels : forall ls g,
  req (fst (opts_rx (map to_items ls) g)) (prx_levels ls g) /\ snd (opts_rx (map to_items ls) g) = g + nvs ls.
Proof.
  induction ls as [|l ls IH]; intros g.
  - cbn [map opts_rx fst snd prx_levels]. split; [apply req_refl|unfold nvs; cbn; lia].
  - cbn [map prx_levels]. rewrite opts_rx_cons. cbn [fst snd].
    destruct (items_rx_to_items l g (prx_levels ls (g + nv l))) as [H1 H2]. rewrite H2. destruct (IH (g + nv l)) as [IH1 IH2].
    split.
    + apply req_sym. eapply req_trans; [apply req_cat_eps_r|]. apply req_opt. apply req_sym.
      eapply req_trans; [apply req_cat; [apply req_refl|exact IH1]|]. exact H1.
    + rewrite IH2. unfold nvs, nv. cbn [concat]. rewrite vars_app, app_length. lia.
Qed.

Theorem prx_req p : req (prx p) (pat_rx (to_pat p)).
Proof.
  rewrite pat_rx_unfold. unfold to_pat. cbn [p_req p_opts]. unfold prx.
  destruct (items_rx_to_items (pp_req p) 0 (prx_levels (pp_opts p) (nv (pp_req p)))) as [H1 H2]. rewrite H2. cbn [Nat.add].
  destruct (opts_rx_levels (pp_opts p) (nv (pp_req p))) as [H3 _].
  apply req_sym. eapply req_trans; [apply req_cat; [apply req_refl|exact H3]|]. exact H1.
Qed.

(* --- names and literal prefix of the grammar-level AST --- *)
Lemma item_names_cons_lit c its : item_names (cons_lit c its) = item_names its.
Proof. destruct its as [|[s|n re] its]; reflexivity. Qed.
Lemma item_names_to_items l : item_names (to_items l) = pnames l.
Proof.
  induction l as [|[c|n e] l IH]; [reflexivity| |].
  - cbn [to_items]. rewrite item_names_cons_lit. exact IH.
  - cbn [to_items]. unfold item_names, pnames. cbn [flat_map vars map fst app]. f_equal. exact IH.
Qed.
Lemma pnames_app a b : pnames (a ++ b) = pnames a ++ pnames b.
Proof. unfold pnames. rewrite vars_app, map_app. reflexivity. Qed.
Lemma pat_names_to_pat p : pat_names (to_pat p) = pnames (flat p).
Proof.
  unfold pat_names, to_pat. cbn [p_req p_opts]. unfold pnames. rewrite vars_flat. fold (pnames (all_items p)).
  unfold all_items. rewrite pnames_app, item_names_to_items. f_equal.
  induction (pp_opts p) as [|l ls IH]; [reflexivity|]. cbn [map flat_map concat]. rewrite pnames_app, item_names_to_items, IH. reflexivity.
Qed.

Lemma lit_prefix_cons_lit c its : lit_prefix (cons_lit c its) = (c :: fst (lit_prefix its), snd (lit_prefix its)).
Proof.
  destruct its as [|[s|n re] its]; cbn [cons_lit lit_prefix]; try reflexivity. destruct (lit_prefix its). reflexivity.
Qed.
Lemma pat_prefix_to_pat p : pat_prefix (to_pat p) = litpre (pp_req p).
Proof.
  unfold pat_prefix, to_pat. cbn [p_req]. induction (pp_req p) as [|[c|n e] l IH]; [reflexivity| |reflexivity].
  cbn [to_items litpre]. rewrite lit_prefix_cons_lit. cbn [fst]. rewrite IH. reflexivity.
Qed.

(* --- no trailing backslash --- *)
Lemma last_app_ne {A} (a b : list A) d : b <> [] -> last (a ++ b) d = last b d.
Proof.
  intros Hb. induction a as [|x a IH]; [reflexivity|]. cbn [app]. destruct (a ++ b) eqn:E.
  - apply app_eq_nil in E. destruct E; congruence.
  - exact IH.
Qed.
Lemma trailing_bsl_last s : N.eqb (last s 0%N) bslash = false -> trailing_bsl s = 0.
Proof.
  intros H. unfold trailing_bsl. destruct s as [|x s]; [reflexivity|].
  rewrite (app_removelast_last 0%N (l := x :: s)) by discriminate. rewrite rev_unit. cbn [leading_bsl]. rewrite H. reflexivity.
Qed.
Lemma retext_last its : forallb fitem_ok its = true -> N.eqb (last (retext_of its) 0%N) bslash = false.
Proof.
  induction its as [|it its IH]; [reflexivity|]. cbn [forallb]. intros H. apply andb_true_iff in H. destruct H as [Hi Hr].
  specialize (IH Hr). change (it :: its) with ([it] ++ its). rewrite retext_app.
  destruct (retext_of its) as [|x R] eqn:ER.
  - rewrite app_nil_r. destruct it as [c|n e]; unfold retext_of; [rewrite showg_chr|rewrite showg_var]; rewrite app_nil_r.
    + cbn [fitem_ok] in Hi. apply fchr_cases in Hi. unfold rc, brc.
      destruct (N.eqb c dot); [reflexivity|]. destruct (N.eqb c lbrack); [reflexivity|]. destruct (N.eqb c rbrack); [reflexivity|].
      cbn [last]. ceq. reflexivity.
    + unfold parensf, parens. change (40%N :: show_sre (vsre n e) ++ [41%N]) with ((40%N :: show_sre (vsre n e)) ++ [41%N]).
      rewrite last_last. reflexivity.
  - rewrite last_app_ne by discriminate. exact IH.
Qed.

(* ================================================================================================ *)
(* 8. patterns without variables (only optional levels)                                               *)
(* ================================================================================================ *)

Lemma showg_novars fc fv fv' its : vars its = [] -> showg fc fv its = showg fc fv' its.
Proof.
  intros Hv. apply showg_ext. apply Forall_items; [reflexivity|]. intros n e Hin. rewrite Hv in Hin. contradiction.
Qed.

Theorem compile_dyn_show_novars p : ppat_wf p -> vars (all_items p) = [] -> pp_opts p <> [] ->
  compile_dyn (show_ppat p) =
  Ok {| d_start := fst (start_and_first (litpre (pp_req p)));
        d_first := snd (start_and_first (litpre (pp_req p)));
        d_retext := retext_of (flat p);
        d_names := [] |}.
Proof.
  intros Hwf Hv Hopts. pose proof Hwf as [Hs Hr Ho Hseg].
  pose proof (flat_fitems p Hr Ho) as Hok.
  assert (HV: vars (flat p) = []) by (rewrite vars_flat; exact Hv).
  unfold compile_dyn. cbv zeta. rewrite (all_vars_show p Hwf), HV. cbn [map].
  assert (Ep: show_ppat p = path1_of (flat p)) by (apply showg_novars; exact HV).
  rewrite Ep. rewrite (stage2 _ Hok (flat_starts_slash p Hs)).
  rewrite (check_optional_flat p Hr Ho). cbn [bind].
  replace (path3_of (flat p)) with (retext_of (flat p)) by (apply showg_novars; exact HV).
  destruct (litpre_facts p Hwf) as (Hne & Hl1 & Hl2).
  assert (Ereq: pp_req p = map PChr (litpre (pp_req p))).
  { destruct (req_split (pp_req p)) as [(n & e & r' & E)|E]; [|exact E]. exfalso.
    unfold all_items in Hv. rewrite vars_app in Hv. apply app_eq_nil in Hv. destruct Hv as [Hv _].
    rewrite E in Hv. rewrite vars_app in Hv. apply app_eq_nil in Hv. destruct Hv as [_ Hv]. discriminate. }
  assert (Hidx: exists o, index_of lbrack (path1_of (flat p)) = Some (S o) /\
                          firstn (S o) (path1_of (flat p)) = litpre (pp_req p)).
  { unfold flat. remember (litpre (pp_req p)) as pre eqn:Epre. rewrite Ereq. clear Ereq Epre. rewrite path1_chars.
    destruct (pp_opts p) as [|l ls]; [congruence|]. cbn [opens flat_map app]. fold (opens ls).
    unfold path1_of. rewrite showg_chr. cbn [app]. rewrite index_of_here by exact Hl2.
    destruct pre as [|x pre']; [congruence|]. exists (List.length pre'). split; [reflexivity|].
    change (S (List.length pre')) with (List.length (x :: pre')). apply firstn_len_app. }
  destruct Hidx as (o & E1 & E2). rewrite E1, E2.
  destruct (start_and_first (litpre (pp_req p))) as [st fi]. reflexivity.
Qed.

(* ================================================================================================ *)
(* 9. the main theorems                                                                               *)
(* ================================================================================================ *)

(* a pattern that parseParamRoute handles: it has a variable or an optional level *)
Definition dynamic (p : ppat) : Prop := vars (all_items p) <> [] \/ pp_opts p <> [].

(* what parseParamRoute computes for the printed pattern *)
Definition dyn_of (p : ppat) : dyn :=
  {| d_start := fst (start_and_first (litpre (pp_req p)));
     d_first := snd (start_and_first (litpre (pp_req p)));
     d_retext := retext_of (flat p);
     d_names := pnames (flat p) |}.

Theorem compile_dyn_retext p : ppat_wf p -> dynamic p -> NoDup (pnames (all_items p)) ->
  compile_dyn (show_ppat p) = Ok (dyn_of p).
Proof.
  intros Hwf Hdyn Hnd. destruct (vars (all_items p)) as [|v vs] eqn:Ev.
  - destruct Hdyn as [H|H]; [congruence|]. rewrite (compile_dyn_show_novars p Hwf Ev H).
    unfold dyn_of, pnames. rewrite vars_flat, Ev. reflexivity.
  - rewrite (compile_dyn_show p Hwf) by (rewrite Ev; discriminate). unfold dyn_of. f_equal. f_equal.
    destruct Hwf as [Hs Hr Ho Hseg]. apply stage3; [apply flat_fitems; assumption|].
    unfold pnames. rewrite vars_flat. exact Hnd.
Qed.

Lemma names_length p : List.length (pnames (flat p)) = nv (pp_req p) + nvs (pp_opts p).
Proof. unfold pnames, nv, nvs. rewrite map_length, vars_flat. unfold all_items. rewrite vars_app, app_length. reflexivity. Qed.

Theorem compile_re_dyn_of p : ppat_wf p -> compile_re (dyn_of p) = Ok (CRx (prx p) (List.length (d_names (dyn_of p)))).
Proof.
  intros [Hs Hr Ho Hseg]. unfold compile_re, compile_re_gen. cbn [d_retext d_names dyn_of].
  rewrite (trailing_bsl_last _ (retext_last _ (flat_fitems p Hr Ho))). cbn [Nat.odd].
  rewrite (parse_retext p Hr Ho), names_length, Nat.eqb_refl. reflexivity.
Qed.

(* The printed pattern is accepted by both front ends; they agree on the variable names, on start / first node,
   and the compiled regular expression behaves exactly like pat_rx of the grammar-level AST (same result of the
   backtracking matcher for every input, captures included). *)
Theorem roundtrip p : ppat_wf p -> dynamic p -> NoDup (pnames (all_items p)) ->
  exists d r,
    parse_pat (show_ppat p) = Some (to_pat p) /\
    compile_dyn (show_ppat p) = Ok d /\
    d_names d = pat_names (to_pat p) /\
    (d_start d, d_first d) = start_and_first (pat_prefix (to_pat p)) /\
    compile_re d = Ok (CRx r (List.length (d_names d))) /\
    req r (pat_rx (to_pat p)) /\
    (forall s, full r s = full (pat_rx (to_pat p)) s).
Proof.
  intros Hwf Hdyn Hnd. exists (dyn_of p), (prx p). repeat split.
  - apply parse_pat_show; exact Hwf.
  - apply compile_dyn_retext; assumption.
  - cbn [d_names dyn_of]. symmetry. apply pat_names_to_pat.
  - cbn [d_start d_first dyn_of]. rewrite pat_prefix_to_pat. destruct (start_and_first (litpre (pp_req p))). reflexivity.
  - apply compile_re_dyn_of; exact Hwf.
  - apply prx_req.
  - apply req_full, prx_req.
Qed.

(* consequence for the route tables: the route registered from the text (Table.reg_route) and the grammar-level
   route (PatTable.route_of) have the same tier data and report the same match result on every path *)
Corollary route_link p ms : ppat_wf p -> dynamic p -> NoDup (pnames (all_items p)) ->
  exists d re,
    compile_dyn (show_ppat p) = Ok d /\ compile_re d = Ok re /\
    let r_pat := route_of {| s_methods := ms; s_path := show_ppat p; s_pat := parse_pat (show_ppat p) |} in
    exists re', rt_kind r_pat = KDyn (d_start d) (d_first d) re' (d_names d) /\
                forall path, match_regex re (d_names d) path = match_regex re' (d_names d) path.
Proof.
  intros Hwf Hdyn Hnd. destruct (roundtrip p Hwf Hdyn Hnd) as (d & r & Hp & Hd & Hn & Hsf & Hre & _ & Hfull).
  exists d, (CRx r (List.length (d_names d))). split; [exact Hd|]. split; [exact Hre|].
  cbv zeta. rewrite Hp. unfold route_of. cbn [s_pat s_methods s_path]. rewrite <- Hsf, <- Hn. cbn [rt_kind].
  eexists. split; [reflexivity|]. intros path. cbn [match_regex]. rewrite Hfull. reflexivity.
Qed.

(* --- an executable check of the hypotheses --- *)
Fixpoint nodupb (l : list str) : bool := match l with [] => true | x :: r => negb (mem x r) && nodupb r end.
Lemma nodupb_NoDup l : nodupb l = true -> NoDup l.
Proof.
  induction l as [|x l IH]; [constructor|]. cbn [nodupb]. intros H. apply andb_true_iff in H. destruct H as [Hx Hl].
  constructor; [|apply IH; exact Hl]. intros Hin. apply mem_in in Hin. rewrite Hin in Hx. discriminate.
Qed.
Definition printable (p : ppat) : bool :=
  starts_slash (pp_req p) && forallb pitem_ok (pp_req p) && forallb (forallb pitem_ok) (pp_opts p) &&
  seg_ok false (all_items p) && nodupb (pnames (all_items p)) &&
  negb (match vars (all_items p) with [] => true | _ => false end && match pp_opts p with [] => true | _ => false end).
Lemma printable_sound p : printable p = true -> ppat_wf p /\ dynamic p /\ NoDup (pnames (all_items p)).
Proof.
  unfold printable. rewrite !andb_true_iff. intros [[[[[H1 H2] H3] H4] H5] H6]. split; [constructor; assumption|].
  split; [|apply nodupb_NoDup; exact H5]. unfold dynamic.
  destruct (vars (all_items p)); [|left; discriminate]. destruct (pp_opts p); [discriminate|right; discriminate].
Qed.

Theorem roundtrip_printable p ms : printable p = true ->
  exists d r,
    parse_pat (show_ppat p) = Some (to_pat p) /\
    compile_dyn (show_ppat p) = Ok d /\
    compile_re d = Ok (CRx r (List.length (d_names d))) /\
    rt_kind (route_of {| s_methods := ms; s_path := show_ppat p; s_pat := Some (to_pat p) |}) =
      KDyn (d_start d) (d_first d) (CRx (pat_rx (to_pat p)) (List.length (d_names d))) (d_names d) /\
    (forall path, full r path = full (pat_rx (to_pat p)) path) /\
    (forall path, match_regex (CRx r (List.length (d_names d))) (d_names d) path =
                  match_regex (CRx (pat_rx (to_pat p)) (List.length (d_names d))) (d_names d) path).
Proof.
  intros H. destruct (printable_sound p H) as (Hwf & Hdyn & Hnd).
  destruct (roundtrip p Hwf Hdyn Hnd) as (d & r & Hp & Hd & Hn & Hsf & Hre & _ & Hfull).
  exists d, r. repeat split; try assumption.
  - unfold route_of. cbn [s_pat s_methods s_path]. rewrite <- Hsf, <- Hn. reflexivity.
  - intros path. cbn [match_regex]. rewrite Hfull. reflexivity.
Qed.

(* sanity check of the definitions on the example of the task description *)
Module Examples.
Import String.
Definition ex_pat : ppat :=
  {| pp_req := map PChr (s "/users/") ++ [PVar (s "id") (VRe [(ADigit, OPlus)])] ++ map PChr (s "/f-") ++
               [PVar (s "name") (VRe [(AClass false [CRange 97 122; COne 48], OPlus); (ADot, OQuest)]%N)] ++ map PChr (s ".txt");
     pp_opts := [map PChr (s "/") ++ [PVar (s "opt") (VRe [(AWord, OStar)])]] |}.
Example ex_pat_text : show_ppat ex_pat = s "/users/{id:\d+}/f-{name:[a-z0]+.?}.txt[/{opt:\w*}]".
Proof. vm_compute. reflexivity. Qed.
Example ex_pat_retext : d_retext (dyn_of ex_pat) = s "/users/(\d+)/f-([a-z0]+.?)\.txt(?:/(\w*))?".
Proof. vm_compute. reflexivity. Qed.
Example ex_pat_printable : printable ex_pat = true.
Proof. vm_compute. reflexivity. Qed.
Example ex_pat_compile : compile_dyn (show_ppat ex_pat) = Ok (dyn_of ex_pat).
Proof. vm_compute. reflexivity. Qed.
Definition ex_pat2 : ppat :=
  {| pp_req := map PChr (s "/blog/") ++ [PVar (s "num") VDef] ++ map PChr (s "/p.") ++ [PVar (s "slug") VDef];
     pp_opts := [map PChr (s "/") ++ [PVar (s "all") VDef]; map PChr (s "/x")] |}.
Example ex_pat2_text : show_ppat ex_pat2 = s "/blog/{num}/p.{slug}[/{all}[/x]]".
Proof. vm_compute. reflexivity. Qed.
Example ex_pat2_printable : printable ex_pat2 = true.
Proof. vm_compute. reflexivity. Qed.
Example ex_pat2_retext : d_retext (dyn_of ex_pat2) = s "/blog/([1-9][0-9]*)/p\.([^/]+)(?:/(.*)(?:/x)?)?".
Proof. vm_compute. reflexivity. Qed.
Example ex_pat2_compile : compile_dyn (show_ppat ex_pat2) = Ok (dyn_of ex_pat2) /\ parse_pat (show_ppat ex_pat2) = Some (to_pat ex_pat2)
  /\ link_ok (show_ppat ex_pat2) = true.
Proof. vm_compute. repeat split. Qed.
End Examples.
