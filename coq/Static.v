(* Static.v — the lexical confinement logic behind StaticDir / StaticFiles / StaticFS / StaticFile:
   path.Clean on rooted paths, http.Dir's join, http.StripPrefix, and the extension filter pattern. *)
From Rux Require Import Base Str Rx.

Definition dotc : ch := 46%N.
Definition seg_dot : str := [dotc].
Definition seg_dotdot : str := [dotc; dotc].

(* split at '/' *)
Fixpoint split_slash (s : str) (cur : str) : list str :=
  match s with
  | [] => [rev cur]
  | c :: r => if N.eqb c slash then rev cur :: split_slash r [] else split_slash r (c :: cur)
  end.
Definition segments (s : str) : list str := split_slash s [].

(* path.Clean("/" ++ s): drop empty and "." elements, resolve ".." against the stack, never climb above the root *)
Definition clean_step (st : list str) (seg : str) : list str :=
  match seg with
  | [] => st
  | _ => if str_eqb seg seg_dot then st
         else if str_eqb seg seg_dotdot then tl st
         else seg :: st
  end.
Definition clean_stack (s : str) : list str := rev (fold_left clean_step (segments s) []).
Fixpoint join_slash (l : list str) : str := match l with [] => [] | x :: r => slash :: x ++ join_slash r end.
Definition clean_rooted (s : str) : str :=      (* path.Clean("/" ++ s) *)
  match clean_stack s with [] => [slash] | l => join_slash l end.

(* http.Dir(root).Open(name): root joined with path.Clean("/" ++ name), element by element *)
Definition dir_open (root : list str) (name : str) : list str := root ++ clean_stack name.

(* http.StripPrefix(prefix, h): h sees the path without the prefix; a path that does not start with it gets 404 *)
Definition strip_prefix (prefix path : str) : option str :=
  if has_prefix prefix path then Some (skipn (List.length prefix) path) else None.

(* the regex of StaticFiles' variable: .+\.(?:e1|...|en) *)
Fixpoint lit_rx (s : str) : rx := match s with [] => Eps | c :: r => Cat (Chr c) (lit_rx r) end.
Fixpoint alt_exts (exts : list str) : rx :=
  match exts with
  | [] => Cls false []                 (* no extension: matches nothing *)
  | [e] => lit_rx e
  | e :: r => Alt (lit_rx e) (alt_exts r)
  end.
Definition ext_filter (exts : list str) : rx := Cat (Plus AnyNL) (Cat (Chr dotc) (alt_exts exts)).
