(* RxParse.v — a parser for the subset of Go regexp (RE2) syntax that rux patterns produce:
   literals, '.', escapes (\. \d \w \s \D \W \S, escaped punctuation, \n \t \r \f \v), classes [..] [^..] with
   ranges and \d \w \s, groups ( ) and (?: ), alternation, and the greedy operators * + ? {m} {m,} {m,n}.
   Result: POk rx | PReject (regexp.MustCompile would panic) | PUnsup (syntax outside the modelled subset:
   the model then answers "unsupported" and the case is only explored by the direct no-panic oracle).
   The parser is not verified against Go's; it is validated by the correspondence run (DESIGN.md, M2). *)
From Rux Require Import Base Rx.

Inductive pres (A : Type) := POk (a : A) | PReject | PUnsup.
Arguments POk {A}. Arguments PReject {A}. Arguments PUnsup {A}.

Definition c_lpar : ch := 40%N.  Definition c_rpar : ch := 41%N.  Definition c_star : ch := 42%N.
Definition c_plus : ch := 43%N.  Definition c_comma : ch := 44%N. Definition c_minus : ch := 45%N.
Definition c_dot : ch := 46%N.   Definition c_colon : ch := 58%N. Definition c_quest : ch := 63%N.
Definition c_lbrk : ch := 91%N.  Definition c_bsl : ch := 92%N.   Definition c_rbrk : ch := 93%N.
Definition c_caret : ch := 94%N. Definition c_lbrc : ch := 123%N. Definition c_bar : ch := 124%N.
Definition c_rbrc : ch := 125%N. Definition c_dollar : ch := 36%N.

Local Open Scope N_scope.
Definition is_digit (c : ch) : bool := N.leb 48 c && N.leb c 57.
Definition is_alpha (c : ch) : bool := (N.leb 65 c && N.leb c 90) || (N.leb 97 c && N.leb c 122).
Definition is_punct (c : ch) : bool :=
  (N.leb 33 c && N.leb c 47) || (N.leb 58 c && N.leb c 64) || (N.leb 91 c && N.leb c 96) || (N.leb 123 c && N.leb c 126).

Definition r_digit : list (ch * ch) := [(48, 57)]%N.
Definition r_word : list (ch * ch) := [(48, 57); (65, 90); (95, 95); (97, 122)]%N.
Definition r_space : list (ch * ch) := [(9, 10); (12, 13); (32, 32)]%N.

(* escape after a backslash, outside a class *)
Definition esc_atom (c : ch) : pres rx :=
  if N.eqb c 100 then POk (Cls false r_digit) else       (* \d *)
  if N.eqb c 119 then POk (Cls false r_word) else        (* \w *)
  if N.eqb c 115 then POk (Cls false r_space) else       (* \s *)
  if N.eqb c 68 then POk (Cls true r_digit) else         (* \D *)
  if N.eqb c 87 then POk (Cls true r_word) else          (* \W *)
  if N.eqb c 83 then POk (Cls true r_space) else         (* \S *)
  if N.eqb c 110 then POk (Chr 10) else                  (* \n *)
  if N.eqb c 116 then POk (Chr 9) else                   (* \t *)
  if N.eqb c 114 then POk (Chr 13) else                  (* \r *)
  if N.eqb c 102 then POk (Chr 12) else                  (* \f *)
  if N.eqb c 118 then POk (Chr 11) else                  (* \v *)
  if is_punct c then POk (Chr c) else
  PUnsup.

(* escape inside a class: ranges it contributes *)
Definition esc_cls (c : ch) : pres (list (ch * ch)) :=
  if N.eqb c 100 then POk r_digit else
  if N.eqb c 119 then POk r_word else
  if N.eqb c 115 then POk r_space else
  if N.eqb c 110 then POk [(10, 10)]%N else
  if N.eqb c 116 then POk [(9, 9)]%N else
  if N.eqb c 114 then POk [(13, 13)]%N else
  if N.eqb c 102 then POk [(12, 12)]%N else
  if N.eqb c 118 then POk [(11, 11)]%N else
  if is_punct c then POk [(c, c)] else
  PUnsup.

(* class body after '[' and the optional '^': returns ranges and the rest after ']' *)
Fixpoint p_class (fuel : nat) (s : str) (acc : list (ch * ch)) : pres (list (ch * ch) * str) :=
  match fuel with
  | O => PUnsup
  | S f =>
    match s with
    | [] => PReject                                  (* missing closing ] *)
    | c :: s1 =>
      if N.eqb c c_rbrk then POk (rev acc, s1) else
      if N.eqb c c_lbrk then PUnsup else             (* [[:alpha:]] and literal [ inside a class *)
      if N.eqb c c_bsl then
        match s1 with
        | [] => PReject
        | e :: s2 => match esc_cls e with
                     | POk rs => match rs, s2 with
                                 | [(lo, _)], d :: h :: _ =>
                                     (* an escaped single character may start a range *)
                                     if N.eqb d c_minus && negb (N.eqb h c_rbrk) then PUnsup else p_class f s2 (rev rs ++ acc)
                                 | _, _ => p_class f s2 (rev rs ++ acc)
                                 end
                     | PReject => PReject
                     | PUnsup => PUnsup
                     end
        end
      else
        match s1 with
        | d :: h :: s3 =>
            if N.eqb d c_minus && negb (N.eqb h c_rbrk) then
              (* range c-h *)
              if N.eqb h c_bsl || N.eqb h c_lbrk then PUnsup
              else if N.ltb h c then PReject else p_class f s3 ((c, h) :: acc)
            else p_class f s1 ((c, c) :: acc)
        | _ => p_class f s1 ((c, c) :: acc)
        end
    end
  end.

Fixpoint p_nat (s : str) (acc : nat) (seen : bool) : option (nat * str) :=
  match s with
  | c :: r => if is_digit c then (if Nat.ltb 2000%nat acc then None else p_nat r (acc * 10 + N.to_nat (c - 48))%nat true)
              else if seen then Some (acc, s) else None
  | [] => if seen then Some (acc, []) else None
  end.

(* after '{' : m} | m,} | m,n}  -> (m, optional n, rest) ; None = not a repetition (the brace is a literal) *)
(* Go's parser rejects a count with a leading zero ("{03}" is literal text) *)
Definition p_int (s : str) : option (nat * str) :=
  match s with
  | c :: d :: _ => if N.eqb c 48 && is_digit d then None else p_nat s 0%nat false
  | _ => p_nat s 0%nat false
  end.
Definition p_bounds (s : str) : option (nat * option nat * bool * str) :=
  match p_int s with
  | Some (m, c :: r) =>
      if N.eqb c c_rbrc then Some (m, Some m, false, r) else
      if N.eqb c c_comma then
        match r with
        | c2 :: r2 => if N.eqb c2 c_rbrc then Some (m, None, true, r2) else
                      match p_int r with
                      | Some (n, c3 :: r3) => if N.eqb c3 c_rbrc then Some (m, Some n, false, r3) else None
                      | _ => None
                      end
        | [] => None
        end
      else None
  | _ => None
  end.

Definition is_rep_op (s : str) : bool :=
  match s with
  | c :: r => N.eqb c c_star || N.eqb c c_plus || N.eqb c c_quest ||
              (N.eqb c c_lbrc && match p_bounds r with Some _ => true | None => false end)
  | [] => false
  end.

Definition rep_limit : nat := 8%nat.   (* larger counted repetitions are outside the modelled subset *)

(* recursive descent; (rx, rest, next group index) *)
Fixpoint p_alt (fuel : nat) (s : str) (g : nat) {struct fuel} : pres (rx * str * nat) :=
  match fuel with
  | O => PUnsup
  | S f =>
    match p_cat f s g with
    | POk (a, s1, g1) =>
        match s1 with
        | c :: s2 => if N.eqb c c_bar
                     then match p_alt f s2 g1 with
                          | POk (b, s3, g2) => POk (Alt a b, s3, g2)
                          | PReject => PReject | PUnsup => PUnsup
                          end
                     else POk (a, s1, g1)
        | [] => POk (a, [], g1)
        end
    | PReject => PReject | PUnsup => PUnsup
    end
  end
with p_cat (fuel : nat) (s : str) (g : nat) {struct fuel} : pres (rx * str * nat) :=
  match fuel with
  | O => PUnsup
  | S f =>
    match s with
    | [] => POk (Eps, [], g)
    | c :: _ =>
        if N.eqb c c_bar || N.eqb c c_rpar then POk (Eps, s, g) else
        match p_rep f s g with
        | POk (a, s1, g1) =>
            match p_cat f s1 g1 with
            | POk (b, s2, g2) => POk (Cat a b, s2, g2)
            | PReject => PReject | PUnsup => PUnsup
            end
        | PReject => PReject | PUnsup => PUnsup
        end
    end
  end
with p_rep (fuel : nat) (s : str) (g : nat) {struct fuel} : pres (rx * str * nat) :=
  match fuel with
  | O => PUnsup
  | S f =>
    match p_atom f s g with
    | POk (a, s1, g1) =>
        match s1 with
        | c :: s2 =>
            if N.eqb c c_star then (if is_rep_op s2 then PUnsup else POk (Star a, s2, g1)) else
            if N.eqb c c_plus then (if is_rep_op s2 then PUnsup else POk (Plus a, s2, g1)) else
            if N.eqb c c_quest then (if is_rep_op s2 then PUnsup else POk (Opt a, s2, g1)) else
            if N.eqb c c_lbrc then
              match p_bounds s2 with
              | Some (m, on, open, s3) =>
                  if is_rep_op s3 then PUnsup else
                  match on with
                  | Some n => if Nat.ltb n m then PReject
                              else if Nat.ltb 1000%nat n then PReject
                              else if Nat.ltb rep_limit n then PUnsup
                              else POk (Rep a m n, s3, g1)
                  | None => if Nat.ltb 1000%nat m then PReject
                            else if Nat.ltb rep_limit m then PUnsup
                            else POk (RepMin a m, s3, g1)
                  end
              | None => POk (a, s1, g1)          (* not a repetition: the brace is a literal, parsed next *)
              end
            else POk (a, s1, g1)
        | [] => POk (a, [], g1)
        end
    | PReject => PReject | PUnsup => PUnsup
    end
  end
with p_atom (fuel : nat) (s : str) (g : nat) {struct fuel} : pres (rx * str * nat) :=
  match fuel with
  | O => PUnsup
  | S f =>
    match s with
    | [] => PReject
    | c :: s1 =>
      if N.eqb c c_lpar then
        match s1 with
        | q :: s2 =>
            if N.eqb q c_quest then
              match s2 with
              | k :: s3 => if N.eqb k c_colon then
                             match p_alt f s3 g with
                             | POk (a, r :: s4, g1) => if N.eqb r c_rpar then POk (a, s4, g1) else PReject
                             | POk (_, [], _) => PReject
                             | PReject => PReject | PUnsup => PUnsup
                             end
                           else PUnsup             (* flags, named groups *)
              | [] => PReject
              end
            else
              match p_alt f s1 (S g) with
              | POk (a, r :: s4, g1) => if N.eqb r c_rpar then POk (Grp g a, s4, g1) else PReject
              | POk (_, [], _) => PReject
              | PReject => PReject | PUnsup => PUnsup
              end
        | [] => PReject
        end
      else if N.eqb c c_rpar then PReject
      else if N.eqb c c_lbrk then
        match s1 with
        | n :: s2 =>
            let '(neg, body) := if N.eqb n c_caret then (true, s2) else (false, s1) in
            match body with
            | b :: _ => if N.eqb b c_rbrk then PUnsup else
                        match p_class f body [] with
                        | POk (rs, rest) => POk (Cls neg rs, rest, g)
                        | PReject => PReject | PUnsup => PUnsup
                        end
            | [] => PReject
            end
        | [] => PReject
        end
      else if N.eqb c c_bsl then
        match s1 with
        | e :: s2 => match esc_atom e with POk a => POk (a, s2, g) | PReject => PReject | PUnsup => PUnsup end
        | [] => PReject
        end
      else if N.eqb c c_dot then POk (AnyNL, s1, g)
      else if N.eqb c c_star || N.eqb c c_plus || N.eqb c c_quest then PReject   (* missing argument *)
      else if N.eqb c c_caret || N.eqb c c_dollar then PUnsup
      else if N.eqb c c_lbrc then
        (* a '{' that starts a valid repetition here has no argument *)
        match p_bounds s1 with Some _ => PReject | None => POk (Chr c, s1, g) end
      else POk (Chr c, s1, g)
    end
  end.

(* the body of "^" ++ body ++ "$": the compiled expression and its number of capturing groups *)
Definition parse_rx (body : str) : pres (rx * nat) :=
  match p_alt (4 * List.length body + 16)%nat body 0%nat with
  | POk (r, [], g) => POk (r, g)
  | POk (_, _ :: _, _) => PReject       (* unexpected ) *)
  | PReject => PReject
  | PUnsup => PUnsup
  end.
