(* Gates.v — HTTPBasicAuth, HTTPMethodOverrideHandler and WrapHTTPHandlers (pkg/handlers, dispatch.go). *)
From Rux Require Import Base Str Consts Writer Chain Dispatch.
Open Scope Z_scope.

(* ---------- Basic auth ---------- *)
Section Auth.
(* base64.StdEncoding.DecodeString, an assumed external function (standard library) *)
Variable b64 : str -> option str.

Definition basic_prefix : str := [66; 97; 115; 105; 99; 32]%N.   (* "Basic " *)
Definition fold_ch (c : ch) : ch := lower_ch c.
Fixpoint eq_fold (a b : str) : bool :=
  match a, b with
  | [], [] => true
  | x :: a', y :: b' => N.eqb (fold_ch x) (fold_ch y) && eq_fold a' b'
  | _, _ => false
  end.
(* strings.Cut(cs, ":") *)
Fixpoint cut_colon (s : str) : option (str * str) :=
  match s with
  | [] => None
  | c :: r => if N.eqb c colon then Some ([], r)
              else match cut_colon r with Some (a, b) => Some (c :: a, b) | None => None end
  end.
(* net/http Request.BasicAuth on the Authorization header value ("" when absent) *)
Definition parse_basic (hdr : str) : option (str * str) :=
  if Nat.ltb (List.length hdr) (List.length basic_prefix) then None else
  if negb (eq_fold (firstn (List.length basic_prefix) hdr) basic_prefix) then None else
  match b64 (skipn (List.length basic_prefix) hdr) with
  | None => None
  | Some cs => cut_colon cs
  end.

Inductive gate := Allow (u p : str) | Deny401 | Deny403.
Fixpoint acct_lookup (u : str) (l : list (str * str)) : option str :=
  match l with [] => None | (k, v) :: r => if str_eqb u k then Some v else acct_lookup u r end.
Definition basic_auth (accounts : list (str * str)) (hdr : str) : gate :=
  match parse_basic hdr with
  | None => Deny401
  | Some (u, p) =>
      match accounts with
      | [] => Allow u p
      | _ => match acct_lookup u accounts with
             | Some p' => if str_eqb p' p then Allow u p else Deny403
             | None => Deny403
             end
      end
  end.

Definition hdr_www : str := [87;87;87;45;65;117;116;104;101;110;116;105;99;97;116;101]%N.  (* WWW-Authenticate *)
Definition challenge : str := [66;97;115;105;99;32;114;101;97;108;109;61;34;84;72;69;32;82;69;65;76;77;34]%N. (* Basic realm="THE REALM" *)
Definition msg_unauth : str := [85;110;97;117;116;104;111;114;105;122;101;100]%N.  (* Unauthorized *)
Definition k_user : str := [117;115;101;114;110;97;109;101]%N.
Definition k_pass : str := [112;97;115;115;119;111;114;100]%N.

(* the middleware as a handler program (it never calls Next: the chain continues by itself unless aborted) *)
Definition auth_prog (accounts : list (str * str)) (hdr : str) : hprog :=
  match basic_auth accounts hdr with
  | Deny401 => [OEff (EW (WSetHeader hdr_www challenge)); OEff (EW (WHttpError msg_unauth 401)); OAbort]
  | Deny403 => [OAbortStatus 403; OEff (ESetData k_user 0); OEff (ESetData k_pass 0)]
  | Allow _ _ => [OEff (ESetData k_user 0); OEff (ESetData k_pass 0)]
  end.
End Auth.

(* ---------- method override ---------- *)
Definition x_put := Consts.PUT. Definition x_patch := Consts.PATCH. Definition x_delete := Consts.DELETE.
(* returns the method the wrapped handler sees and the recorded original method *)
Definition method_override (meth form_val hdr_val : str) : str * option str :=
  if str_eqb meth POST then
    let om := match form_val with [] => hdr_val | _ => form_val end in
    let om := to_upper om in
    if str_eqb om PUT || str_eqb om PATCH || str_eqb om DELETE then (om, Some POST) else (meth, None)
  else (meth, None).

(* ---------- WrapHTTPHandlers ---------- *)
Section Wrap.
Variable H : Type.    (* http.Handler *)
(* the loop of WrapHTTPHandlers: i = 0..max-1, current = max-i-1; nil when there is no wrapper *)
Definition wrap_loop (ws : list (H -> H)) (r : H) : option H :=
  let mx := List.length ws in
  fold_left (fun (acc : option H) (i : nat) =>
               match nth_error ws (mx - i - 1) with
               | Some w => Some (w (match acc with Some h => h | None => r end))
               | None => acc
               end) (seq 0 mx) None.
(* specification: the first listed wrapper is outermost *)
Definition wrap_spec (ws : list (H -> H)) (r : H) : H := fold_right (fun w acc => w acc) r ws.
End Wrap.
