(* RenderFacts.v — what the response helpers of Context / pkg/render make the underlying writer receive. *)
From Rux Require Import Base BaseFacts Str Writer WriterFacts Render.
Open Scope Z_scope.

(* a positive status on a fresh writer is simply remembered *)
Lemma write_header_fresh sc st : 0 < st ->
  write_header st (winit sc) = {| status := st; length := -1; script := sc; log := []; obs := [] |}.
Proof.
  intros H. unfold write_header, winit. cbn [status length script log obs].
  destruct (Z.gtb_spec st 0) as [_|Hn]; [|lia].
  destruct (Z.eqb_spec 0 st) as [E|_]; [lia|]. reflexivity.
Qed.

Lemma pos_status st : 0 < st -> (if st =? 0 then 200 else st) = st.
Proof. intros H. destruct (Z.eqb_spec st 0) as [E|_]; [lia | reflexivity]. Qed.

(* a positive status, then any ops, then the dispatcher's final commit *)
Lemma header_then_ops sc st ops : 0 < st ->
  log (ensure (wrun ops (write_header st (winit sc)))) = WH (spec_status st ops) :: spec_events sc ops.
Proof.
  intros H. rewrite (write_header_fresh sc st H).
  destruct (wrequest_log_gen ops {| status := st; length := -1; script := sc; log := []; obs := [] |} eq_refl) as [E _].
  exact E.
Qed.

(* Context.Blob / Text / HTML / JSONBytes: the given positive status, the given content type (set even if one was preset), the body *)
Theorem blob_response preset sc status ct data : 0 < status ->
  let r := ctx_blob status ct data (rsp_init preset sc) in
  ctype r = Some ct /\
  log (ensure (rw r)) = WH status :: (match data with [] => [] | _ => [W (fst (accept sc data))] end).
Proof.
  intros H r. subst r. split.
  - unfold ctx_blob. destruct data; reflexivity.
  - destruct data as [|c data].
    + change (rw (ctx_blob status ct [] (rsp_init preset sc)))
        with (wrun [] (write_header status (winit sc))).
      rewrite (header_then_ops sc status [] H). cbn [spec_status spec_events].
      rewrite (pos_status status H). reflexivity.
    + change (rw (ctx_blob status ct (c :: data) (rsp_init preset sc)))
        with (wrun [WWrite (c :: data)] (write_header status (winit sc))).
      rewrite (header_then_ops sc status _ H). cbn [spec_status spec_events].
      rewrite (pos_status status H).
      destruct (accept sc (c :: data)); reflexivity.
Qed.

Theorem no_content_response preset sc : log (ensure (rw (ctx_no_content (rsp_init preset sc)))) = [WH 204].
Proof. reflexivity. Qed.

Theorem http_error_response preset sc msg status : 0 < status ->
  log (ensure (rw (ctx_http_error msg status (rsp_init preset sc)))) = [WH status; W (fst (accept sc (msg ++ [newline])))].
Proof.
  intros H.
  change (rw (ctx_http_error msg status (rsp_init preset sc)))
    with (wrun [WWrite (msg ++ [newline])] (write_header status (winit sc))).
  rewrite (header_then_ops sc status _ H). cbn [spec_status spec_events].
  rewrite (pos_status status H).
  destruct (accept sc (msg ++ [newline])); reflexivity.
Qed.

(* pkg/render renderers never override a Content-Type that is already set, and set the documented one otherwise *)
(* pkg/render Blob and its aliases, used on their own (status 200 is the writer's default): the preset Content-Type wins,
   the body is exactly the data *)
Theorem render_blob_response preset sc ct data :
  let r := render_blob ct data (rsp_init preset sc) in
  ctype r = Some (match preset with Some c => c | None => ct end) /\
  log (ensure (rw r)) = WH 200 :: (match data with [] => [] | _ => [W (fst (accept sc data))] end).
Proof.
  intros r. subst r. split.
  - unfold render_blob. destruct data; destruct preset; reflexivity.
  - unfold render_blob. destruct data as [|c data].
    + destruct preset; reflexivity.
    + assert (E : rw (with_rw (write (c :: data)) (write_ct ct (rsp_init preset sc))) = wrun [WWrite (c :: data)] (winit sc)).
      { destruct preset; reflexivity. }
      rewrite E. destruct (wrequest_log sc [WWrite (c :: data)]) as [H _]. unfold wrequest in H. rewrite H.
      cbn [spec_status spec_events]. destruct (accept sc (c :: data)); reflexivity.
Qed.

Theorem write_ct_keeps v r old : ctype r = Some old -> ctype (write_ct v r) = Some old.
Proof. intros H. unfold write_ct. rewrite H. exact H. Qed.

Theorem write_ct_sets v r : ctype r = None -> ctype (write_ct v r) = Some v.
Proof. intros H. unfold write_ct. rewrite H. reflexivity. Qed.

Lemma write_ct_rw v r : rw (write_ct v r) = rw r.
Proof. unfold write_ct. destruct (ctype r); reflexivity. Qed.
Lemma write_ct_nerr v r : nerr (write_ct v r) = nerr r.
Proof. unfold write_ct. destruct (ctype r); reflexivity. Qed.

Section Enc.
Variables (V : Type) (enc_json enc_xml : V -> option str) (xml_header : str).

Theorem json_response preset sc status v b : 0 < status -> enc_json v = Some b -> b <> [] ->
  let r := respond status (render_json V enc_json v) (rsp_init preset sc) in
  ctype r = Some (match preset with Some c => c | None => ct_json end) /\ nerr r = 0%nat /\
  log (ensure (rw r)) = [WH status; W (fst (accept sc b))].
Proof.
  intros H He Hb r. subst r. unfold respond, render_json. rewrite He.
  split; [|split].
  - destruct preset; reflexivity.
  - destruct preset; reflexivity.
  - cbn [rw with_rw]. rewrite write_ct_rw. cbn [rw with_rw rsp_init].
    change (write b (write_header status (winit sc)))
      with (wrun [WWrite b] (write_header status (winit sc))).
    rewrite (header_then_ops sc status _ H). cbn [spec_status spec_events].
    rewrite (pos_status status H).
    destruct (accept sc b); reflexivity.
Qed.

Theorem json_encode_error preset sc status v : enc_json v = None ->
  nerr (respond status (render_json V enc_json v) (rsp_init preset sc)) = 1%nat.
Proof.
  intros He. unfold respond, render_json. rewrite He.
  cbn [add_err nerr]. rewrite write_ct_nerr. reflexivity.
Qed.
   (* the error is recorded (c.Errors), nothing panics: respond is a total function *)

Theorem jsonp_response_body preset status v b cb : 0 < status -> enc_json v = Some b ->
  let r := respond status (render_jsonp V enc_json cb v) (rsp_init preset []) in
  body_of (log (ensure (rw r))) = cb ++ [40%N] ++ b ++ [41%N; 59%N] /\
  ctype r = Some (match preset with Some c => c | None => ct_jsonp end).
Proof.
  intros H He r. subst r. unfold respond, render_jsonp. rewrite He.
  split.
  - cbn [rw with_rw]. rewrite write_ct_rw. cbn [rw with_rw rsp_init].
    change (write [41%N; 59%N] (write b (write (cb ++ [40%N]) (write_header status (winit [])))))
      with (wrun [WWrite (cb ++ [40%N]); WWrite b; WWrite [41%N; 59%N]] (write_header status (winit []))).
    rewrite (header_then_ops [] status _ H). cbn [spec_status spec_events accept].
    cbn [body_of map concat]. rewrite app_nil_r. rewrite <- app_assoc. reflexivity.
  - destruct preset; reflexivity.
Qed.
   (* with an empty short-write script every write is accepted in full: accept [] x = (x, []) *)
End Enc.

(* content negotiation: the renderer of the first supported type listed wins; nothing supported -> None (an error is returned) *)
Lemma auto_pick_nonempty accepts : accepts <> [] -> auto_pick accepts = auto_loop accepts.
Proof. intros H. unfold auto_pick. destruct accepts; [congruence | reflexivity]. Qed.

Lemma auto_loop_some l k : auto_loop l = Some k <->
  exists pre a post, l = pre ++ a :: post /\ supported a = Some k /\ (forall x, In x pre -> supported x = None).
Proof.
  induction l as [|a l IH]; cbn [auto_loop].
  - split; [discriminate|]. intros (pre & a & post & E & _). destruct pre; discriminate.
  - destruct (supported a) as [k0|] eqn:Ea.
    + split.
      * intros E. injection E as <-. exists [], a, l. repeat split; auto. intros x [].
      * intros (pre & a' & post & E & Hs & Hpre). destruct pre as [|p pre].
        -- cbn [app] in E. injection E as <- <-. congruence.
        -- cbn [app] in E. injection E as <- ->.
           rewrite (Hpre a (or_introl eq_refl)) in Ea. discriminate.
    + rewrite IH. split.
      * intros (pre & a' & post & -> & Hs & Hpre). exists (a :: pre), a', post.
        repeat split; auto. intros x [<- | Hx]; auto.
      * intros (pre & a' & post & E & Hs & Hpre). destruct pre as [|p pre].
        -- cbn [app] in E. injection E as <- <-. congruence.
        -- cbn [app] in E. injection E as <- ->. exists pre, a', post.
           repeat split; auto. intros x Hx. apply Hpre. right. exact Hx.
Qed.

Lemma auto_loop_none l : auto_loop l = None <-> forall x, In x l -> supported x = None.
Proof.
  induction l as [|a l IH]; cbn [auto_loop].
  - split; auto. intros _ x [].
  - destruct (supported a) as [k0|] eqn:Ea.
    + split; [discriminate|]. intros Hall. rewrite (Hall a (or_introl eq_refl)) in Ea. discriminate.
    + rewrite IH. split.
      * intros Hall x [<- | Hx]; auto.
      * intros Hall x Hx. apply Hall. right. exact Hx.
Qed.

Theorem accept_first_supported accepts k : accepts <> [] -> auto_pick accepts = Some k <->
  exists pre a post, accepts = pre ++ a :: post /\ supported a = Some k /\ (forall x, In x pre -> supported x = None).
Proof. intros H. rewrite (auto_pick_nonempty accepts H). apply auto_loop_some. Qed.

Theorem accept_none_supported accepts : accepts <> [] -> auto_pick accepts = None <-> forall x, In x accepts -> supported x = None.
Proof. intros H. rewrite (auto_pick_nonempty accepts H). apply auto_loop_none. Qed.

Theorem accept_empty_is_text : auto_pick [] = Some KText.
Proof. reflexivity. Qed.
