(* BuildLink.v — C15 link: the string-level BuildRequestURL.Build (after repair F19: ONE left-to-right pass of a
   multi-pair replacer over the registered path) computes, on the printed text of a printable pattern without
   optional parts and with distinct variable names, exactly the grammar-level substitution [subst_items] of the
   caller's values for the variables of the parsed pattern - for ARBITRARY values (they may contain braces,
   other placeholders' texts, anything), because emitted values are never scanned again.
     placeholder_var_text, trim_space_name          the key Build looks up for "{n}" / "{n:regex}" is "{n}"
     var_text_prefix_name, var_text_prefix_eq       no OTHER variable text is a prefix of "{n...}rest" (name part first)
     first_match_lit, bpairs_match                  what the replacer finds at a literal / at a variable text
     replace_multi_items                            the one pass over the printed items (fuel S (length path) suffices)
     subst_items_to_items                           merged literals: subst_items (to_items its) = csubst its
     var_texts_in, var_texts_show                   the distinct variable texts are the texts of the variables
     build_path_is_subst_gen                        general form: any parameter map that holds the values, any order of the pairs
     build_path_is_subst, build_path_is_subst_any_order   the theorem for the caller's map {name_i} -> value_i
     Contrast.build_contrast                        legacy (one pass per variable) vs one pass, on /{a}/{b}
     pat_ok_to_pat, built_url_matches, built_url_den, built_url_matches_printable
                                                    the built URL is matched by the pattern it was built for *)
From Rux Require Import Base BaseFacts Str Consts Rx RxFacts RxParse Pattern Pat PatFacts Build RoundTrip BuildFacts.
Local Open Scope nat_scope.

(* ================================================================================================ *)
(* 1. the placeholder of a printed variable                                                           *)
(* ================================================================================================ *)

Lemma trim_space_name n : name_ok n = true -> trim_space n = n.
Proof. intros H. destruct (name_ok_alnum n H) as [Hn _]. apply trim_space_none, alnum_nospace, Hn. Qed.

Lemma placeholder_var_text n v : var_ok n v = true -> placeholder (var_text n v) = braces n.
Proof.
  intros H. destruct (var_name_alnum _ _ H) as [Hn _]. unfold placeholder, var_text. unfold braces at 1. cbn [tl].
  rewrite removelast_last. destruct v as [e|].
  - rewrite (split_colon_inner n e H), (trim_space_none n (alnum_nospace n Hn)). reflexivity.
  - cbn [var_inner]. rewrite (split_colon_name n Hn). reflexivity.
Qed.

(* ================================================================================================ *)
(* 2. variable texts: "{" name delimiter ... , the delimiter (":" or "}") is not alphanumeric         *)
(* ================================================================================================ *)

Definition vdelim (v : vspec) : ch := match v with VRe _ => colon | VDef => rbrace end.
Definition vtail (v : vspec) : str := match v with VRe e => show_sre e ++ [rbrace] | VDef => [] end.

Lemma var_text_split n v rest : var_text n v ++ rest = lbrace :: n ++ vdelim v :: vtail v ++ rest.
Proof.
  unfold var_text, braces. destruct v as [e|]; cbn [var_inner vdelim vtail app].
  - rewrite <- ?app_assoc. cbn [app]. rewrite <- ?app_assoc. reflexivity.
  - rewrite <- ?app_assoc. reflexivity.
Qed.
Lemma vdelim_not_alnum v : is_alnum (vdelim v) = false.
Proof. destruct v; reflexivity. Qed.
Lemma var_text_cons n v : var_text n v = lbrace :: var_inner n v ++ [rbrace].
Proof. reflexivity. Qed.

(* two alphanumeric names, each followed by a non-alphanumeric character: a prefix relation forces equal names *)
Lemma prefix_name_eq : forall n1 n d1 d t1 t, forallb is_alnum n1 = true -> forallb is_alnum n = true ->
  is_alnum d1 = false -> is_alnum d = false -> has_prefix (n1 ++ d1 :: t1) (n ++ d :: t) = true -> n1 = n.
Proof.
  induction n1 as [|a n1 IH]; intros [|b n] d1 d t1 t H1 H2 Hd1 Hd H; cbn [app has_prefix forallb] in *.
  - reflexivity.
  - apply andb_true_iff in H. destruct H as [E _]. apply N.eqb_eq in E. subst b.
    apply andb_true_iff in H2. destruct H2 as [Hb _]. congruence.
  - apply andb_true_iff in H. destruct H as [E _]. apply N.eqb_eq in E. subst a.
    apply andb_true_iff in H1. destruct H1 as [Ha _]. congruence.
  - apply andb_true_iff in H. destruct H as [E H]. apply N.eqb_eq in E. subst b.
    apply andb_true_iff in H1. apply andb_true_iff in H2. destruct H1 as [_ H1]. destruct H2 as [_ H2].
    f_equal. exact (IH n d1 d t1 t H1 H2 Hd1 Hd H).
Qed.

(* a variable text that is a prefix of another variable's text followed by anything has the same name
   (the regex bodies are not looked at) *)
Lemma var_text_prefix_name n1 v1 n v rest : var_ok n1 v1 = true -> var_ok n v = true ->
  has_prefix (var_text n1 v1) (var_text n v ++ rest) = true -> n1 = n.
Proof.
  intros H1 H2 Hp. destruct (var_name_alnum _ _ H1) as [Hn1 _]. destruct (var_name_alnum _ _ H2) as [Hn _].
  rewrite <- (app_nil_r (var_text n1 v1)) in Hp. rewrite !var_text_split in Hp. cbn [has_prefix] in Hp.
  apply andb_true_iff in Hp. destruct Hp as [_ Hp].
  exact (prefix_name_eq _ _ _ _ _ _ Hn1 Hn (vdelim_not_alnum v1) (vdelim_not_alnum v) Hp).
Qed.
Corollary var_text_inj_name n1 v1 n v : var_ok n1 v1 = true -> var_ok n v = true -> var_text n1 v1 = var_text n v -> n1 = n.
Proof.
  intros H1 H2 E. apply (var_text_prefix_name n1 v1 n v [] H1 H2). rewrite E. apply has_prefix_refl.
Qed.

(* with the bodies: the whole texts are equal (printed regex bodies contain no "}") *)
Lemma var_text_prefix_eq n1 v1 n v rest : var_ok n1 v1 = true -> var_ok n v = true ->
  has_prefix (var_text n1 v1) (var_text n v ++ rest) = true -> var_text n1 v1 = var_text n v.
Proof.
  intros H1 H2 Hp. rewrite !var_text_cons in Hp. cbn [app has_prefix] in Hp. rewrite N.eqb_refl in Hp. cbn [andb] in Hp.
  rewrite <- app_assoc in Hp. cbn [app] in Hp.
  apply has_prefix_braced in Hp; [|apply var_inner_norbrace; exact H1|apply var_inner_norbrace; exact H2].
  unfold var_text. rewrite Hp. reflexivity.
Qed.

(* ================================================================================================ *)
(* 3. first_match                                                                                     *)
(* ================================================================================================ *)

(* at a character other than "{" no pair applies when every old text starts with "{" *)
Lemma first_match_lit pairs c s : olds_lbrace pairs -> N.eqb c lbrace = false -> first_match pairs (c :: s) = None.
Proof.
  induction pairs as [|[o n] ps IH]; intros Ho Hc; [reflexivity|]. cbn [first_match].
  destruct (Ho o n (or_introl eq_refl)) as [t ->]. cbn [has_prefix].
  rewrite N.eqb_sym, Hc. cbn [andb]. apply IH; [|exact Hc]. intros o' n' Hin. apply (Ho o' n'). right. exact Hin.
Qed.

(* the first applicable pair is the right one *)
Lemma first_match_in : forall pairs old new rest, In (old, new) pairs -> old <> [] ->
  (forall o n, In (o, n) pairs -> has_prefix o (old ++ rest) = true -> o = old /\ n = new) ->
  first_match pairs (old ++ rest) = Some (old, new).
Proof.
  induction pairs as [|[o n] ps IH]; intros old new rest Hin Hne Huniq; [contradiction|]. cbn [first_match].
  destruct o as [|x o'].
  - destruct Hin as [E|Hin]; [inversion E; subst; congruence|].
    apply IH; [exact Hin|exact Hne|]. intros o1 n1 H1. apply Huniq. right. exact H1.
  - destruct (has_prefix (x :: o') (old ++ rest)) eqn:Ep.
    + destruct (Huniq (x :: o') n (or_introl eq_refl) Ep) as [Eo En]. rewrite Eo, En. reflexivity.
    + destruct Hin as [E|Hin].
      * inversion E; subst. rewrite has_prefix_refl in Ep. discriminate.
      * apply IH; [exact Hin|exact Hne|]. intros o1 n1 H1. apply Huniq. right. exact H1.
Qed.

(* ================================================================================================ *)
(* 4. the pairs Build hands to the replacer                                                           *)
(* ================================================================================================ *)

Definition vt (nv : str * vspec) : str := var_text (fst nv) (snd nv).
(* [order]: the variable texts in the order Build passes them to strings.NewReplacer *)
Definition bpairs (params : list (str * str)) (order : list str) : list (str * str) :=
  map (fun vs => (vs, lookup (placeholder vs) params)) order.

Definition vars_ok (V : list (str * vspec)) : Prop := forall n e, In (n, e) V -> var_ok n e = true.
(* every text in the list is the text of a well-formed variable *)
Definition texts_ok (order : list str) : Prop := forall o, In o order -> exists n e, var_ok n e = true /\ o = var_text n e.

Lemma in_bpairs params order o nw : texts_ok order -> In (o, nw) (bpairs params order) ->
  exists n e, var_ok n e = true /\ o = var_text n e /\ nw = lookup (braces n) params.
Proof.
  intros Hok Hin. unfold bpairs in Hin. apply in_map_iff in Hin. destruct Hin as (o' & E & Hin). inversion E; subst. clear E.
  destruct (Hok o Hin) as (n & e & Hv & ->). exists n, e. split; [exact Hv|]. split; [reflexivity|].
  rewrite (placeholder_var_text n e Hv). reflexivity.
Qed.
Lemma bpairs_in params order n e : var_ok n e = true -> In (var_text n e) order ->
  In (var_text n e, lookup (braces n) params) (bpairs params order).
Proof.
  intros Hv Hin. unfold bpairs. apply in_map_iff. exists (var_text n e). split; [|exact Hin].
  rewrite (placeholder_var_text n e Hv). reflexivity.
Qed.
Lemma bpairs_olds params order : texts_ok order -> olds_lbrace (bpairs params order).
Proof.
  intros Hok o nw Hin. apply (in_bpairs params order o nw Hok) in Hin. destruct Hin as (n & e & _ & -> & _).
  rewrite var_text_cons. eauto.
Qed.

(* at the text of a variable the first pair whose old text starts there is a pair of that very text, and its new text
   is the value looked up under "{name}" - whatever the order of the pairs, even with repeated texts *)
Lemma bpairs_match params order n e rest : texts_ok order -> var_ok n e = true -> In (var_text n e) order ->
  first_match (bpairs params order) (var_text n e ++ rest) = Some (var_text n e, lookup (braces n) params).
Proof.
  intros Hok Hv Hin. apply first_match_in.
  - apply bpairs_in; assumption.
  - rewrite var_text_cons. discriminate.
  - intros o nw Ho Hp. apply (in_bpairs params order o nw Hok) in Ho. destruct Ho as (n' & e' & Hv' & -> & ->).
    pose proof (var_text_prefix_name n' e' n e rest Hv' Hv Hp) as En.
    pose proof (var_text_prefix_eq n' e' n e rest Hv' Hv Hp) as Et. subst n'. auto.
Qed.

(* ================================================================================================ *)
(* 5. the one pass over a printed item list                                                           *)
(* ================================================================================================ *)

Lemma replace_multi_cons f pairs c r :
  replace_multi (S f) pairs (c :: r) =
  match first_match pairs (c :: r) with
  | Some (old, new) => new ++ replace_multi f pairs (skipn (List.length old) (c :: r))
  | None => c :: replace_multi f pairs r
  end.
Proof. reflexivity. Qed.

Lemma safe_not_lbrace c : is_safe c = true -> N.eqb c lbrace = false.
Proof. intros H. apply safe_cases in H. apply N.eqb_neq. uc. lia. Qed.

(* literal characters are copied, every variable text is replaced by the value looked up under "{name}";
   the emitted values are not scanned, whatever they contain; every step consumes input, so the fuel suffices *)
Lemma replace_multi_items params order : texts_ok order -> forall its f,
  forallb pitem_ok its = true -> (forall n e, In (n, e) (vars its) -> In (var_text n e) order) ->
  List.length (show_items its) < f ->
  replace_multi f (bpairs params order) (show_items its) = showg (fun c => [c]) (fun n _ => lookup (braces n) params) its.
Proof.
  intros Hok. induction its as [|[c|n e] its IH]; intros f Hits Hsub Hf.
  - destruct f; [lia|reflexivity].
  - cbn [forallb pitem_ok] in Hits. apply andb_true_iff in Hits. destruct Hits as [Hc Hits].
    unfold show_items in *. rewrite showg_chr in *. fold show_items in *. rewrite showg_chr. cbn [app] in *.
    destruct f as [|f]; [lia|]. rewrite replace_multi_cons.
    rewrite (first_match_lit _ c _ (bpairs_olds params order Hok) (safe_not_lbrace c Hc)). f_equal.
    apply IH; [exact Hits|exact Hsub|]. cbn [List.length] in Hf. lia.
  - cbn [forallb pitem_ok] in Hits. apply andb_true_iff in Hits. destruct Hits as [Hv Hits].
    assert (Hin : In (var_text n e) order) by (apply Hsub; left; reflexivity).
    unfold show_items in *. rewrite showg_var in *. fold show_items in *. rewrite showg_var.
    destruct f as [|f]; [lia|].
    pose proof (bpairs_match params order n e (show_items its) Hok Hv Hin) as Hm.
    pose proof (skipn_len_app (var_text n e) (show_items its)) as Hsk.
    rewrite app_length in Hf.
    destruct (var_text n e ++ show_items its) as [|c r] eqn:Es.
    { rewrite var_text_cons in Es. discriminate. }
    rewrite replace_multi_cons, Hm, Hsk. f_equal.
    apply IH; [exact Hits| |].
    + intros n' e' H'. apply Hsub. right. exact H'.
    + rewrite var_text_cons in Hf. cbn [List.length] in Hf. lia.
Qed.

(* ================================================================================================ *)
(* 6. character-level substitution and the merged literals of to_items                                *)
(* ================================================================================================ *)

Fixpoint csubst (its : list pitem) (vals : list str) : str :=
  match its with
  | [] => []
  | PChr c :: r => c :: csubst r vals
  | PVar _ _ :: r => match vals with v :: vs' => v ++ csubst r vs' | [] => csubst r [] end
  end.

Lemma subst_items_cons_lit c its vs : subst_items (cons_lit c its) vs = c :: subst_items its vs.
Proof. destruct its as [|[s|n re] its]; reflexivity. Qed.

Lemma subst_items_to_items its : forall vs, subst_items (to_items its) vs = csubst its vs.
Proof.
  induction its as [|[c|n e] its IH]; intros vs; [reflexivity| |].
  - cbn [to_items csubst]. rewrite subst_items_cons_lit, IH. reflexivity.
  - cbn [to_items csubst subst_items]. destruct vs as [|v vs]; rewrite IH; reflexivity.
Qed.

(* the values looked up by name are the positional values *)
Lemma showg_lookup_csubst params : forall its vals,
  Forall2 (fun nv v => lookup (braces (fst nv)) params = v) (vars its) vals ->
  showg (fun c => [c]) (fun n _ => lookup (braces n) params) its = csubst its vals.
Proof.
  induction its as [|[c|n e] its IH]; intros vals H.
  - reflexivity.
  - rewrite showg_chr. cbn [csubst app]. f_equal. apply IH. exact H.
  - rewrite showg_var. cbn [vars flat_map app] in H. fold (vars its) in H.
    inversion H as [|x v l l' Hx Hl]; subst. cbn [csubst fst]. f_equal. apply IH. exact Hl.
Qed.

Lemma lookup_app_notin k pre l : ~ In k (map fst pre) -> lookup k (pre ++ l) = lookup k l.
Proof.
  induction pre as [|[k' v] pre IH]; intros H; [reflexivity|]. cbn [app lookup]. cbn [map fst] in H.
  destruct (str_eqb_spec k k') as [E|NE]; [exfalso; apply H; left; congruence|].
  apply IH. intros Hin. apply H. right. exact Hin.
Qed.

Lemma braces_inj a b : braces a = braces b -> a = b.
Proof. unfold braces. intros E. inversion E as [E']. apply app_inj_tail in E'. tauto. Qed.

Lemma lookup_combine_nodup (V : list (str * vspec)) : forall vals pre, NoDup (map fst V) -> List.length vals = List.length V ->
  (forall y, In y V -> ~ In (braces (fst y)) (map fst pre)) ->
  Forall2 (fun nv v => lookup (braces (fst nv)) (pre ++ combine (map braces (map fst V)) vals) = v) V vals.
Proof.
  induction V as [|x V IH]; intros vals pre Hnd Hlen Hpre.
  - destruct vals; [constructor|discriminate].
  - destruct vals as [|v vals]; [discriminate|]. cbn [map fst] in Hnd. inversion Hnd as [|? ? Hnin Hnd']; subst.
    cbn [map combine]. constructor.
    + rewrite lookup_app_notin by (apply Hpre; left; reflexivity). cbn [lookup]. rewrite str_eqb_refl. reflexivity.
    + replace (pre ++ (braces (fst x), v) :: combine (map braces (map fst V)) vals)
        with ((pre ++ [(braces (fst x), v)]) ++ combine (map braces (map fst V)) vals)
        by (rewrite <- app_assoc; reflexivity).
      apply IH; [exact Hnd'|cbn [List.length] in Hlen; lia|].
      intros y Hy Hin. rewrite map_app in Hin. apply in_app_or in Hin. destruct Hin as [Hin|Hin].
      * apply (Hpre y (or_intror Hy) Hin).
      * cbn [map fst In] in Hin. destruct Hin as [E|[]]. apply braces_inj in E.
        apply Hnin. rewrite E. apply in_map. exact Hy.
Qed.

(* ================================================================================================ *)
(* 7. the distinct variable texts of the printed pattern                                              *)
(* ================================================================================================ *)

Lemma dedup_first_in x : forall l seen, In x (dedup_first seen l) <-> In x l /\ ~ In x seen.
Proof.
  induction l as [|y l IH]; intros seen; cbn [dedup_first In]; [tauto|].
  destruct (mem y seen) eqn:Em.
  - apply mem_in in Em. rewrite IH. split; [tauto|]. intros [[E|H] Hs]; [subst; contradiction|tauto].
  - assert (Hy : ~ In y seen) by (intros H; apply mem_in in H; congruence).
    cbn [In]. rewrite IH. cbn [In]. destruct (str_eq_dec y x) as [E|NE]; [subst; tauto|tauto].
Qed.

Lemma dedup_first_nodup : forall l seen, NoDup l -> (forall x, In x l -> ~ In x seen) -> dedup_first seen l = l.
Proof.
  induction l as [|x l IH]; intros seen Hnd Hs; [reflexivity|]. inversion Hnd as [|? ? Hnin Hnd']; subst.
  cbn [dedup_first]. destruct (mem x seen) eqn:Em.
  - apply mem_in in Em. exfalso. apply (Hs x (or_introl eq_refl) Em).
  - f_equal. apply IH; [exact Hnd'|]. intros y Hy [E|Hin].
    + subst y. contradiction.
    + apply (Hs y (or_intror Hy) Hin).
Qed.

Lemma vt_nodup V : vars_ok V -> NoDup (map fst V) -> NoDup (map vt V).
Proof.
  induction V as [|[n e] V IH]; intros Hok Hnd; [constructor|]. cbn [map fst] in *. inversion Hnd as [|? ? Hnin Hnd']; subst.
  constructor.
  - intros Hin. apply in_map_iff in Hin. destruct Hin as ([n' e'] & E & Hin). unfold vt in E. cbn [fst snd] in E.
    apply var_text_inj_name in E; [|apply Hok; right; exact Hin|apply Hok; left; reflexivity].
    subst n'. apply Hnin. apply in_map_iff. exists (n, e'). auto.
  - apply IH; [|exact Hnd']. intros n' e' H'. apply Hok. right. exact H'.
Qed.

Lemma flat_no_opts p : pp_opts p = [] -> flat p = pp_req p.
Proof. intros Ho. unfold flat. rewrite Ho. cbn [opens flat_map List.length closers repeat]. rewrite !app_nil_r. reflexivity. Qed.

Lemma req_vars_ok p : ppat_wf p -> vars_ok (vars (pp_req p)).
Proof. intros W n e Hin. exact (fitems_var _ n e (pitems_fitems _ (wf_req p W)) Hin). Qed.

(* as a set, the variable texts Build collects are the texts of the variables *)
Lemma var_texts_in p x : ppat_wf p -> pp_opts p = [] -> (In x (var_texts (show_ppat p)) <-> In x (map vt (vars (pp_req p)))).
Proof.
  intros W Ho. unfold var_texts. rewrite (all_vars_show p W), (flat_no_opts p Ho). fold vt.
  rewrite dedup_first_in. cbn [In]. tauto.
Qed.
(* with distinct names they are the texts of the variables, in path order *)
Lemma var_texts_show p : ppat_wf p -> pp_opts p = [] -> NoDup (pnames (pp_req p)) ->
  var_texts (show_ppat p) = map vt (vars (pp_req p)).
Proof.
  intros W Ho Hnd. unfold var_texts. rewrite (all_vars_show p W), (flat_no_opts p Ho). fold vt.
  apply dedup_first_nodup; [|intros x _ []]. apply vt_nodup; [apply req_vars_ok; exact W|exact Hnd].
Qed.

(* ================================================================================================ *)
(* 8. the theorem                                                                                     *)
(* ================================================================================================ *)

Lemma Forall2_map_l {A B C} (f : A -> B) (R : B -> C -> Prop) l l' :
  Forall2 R (map f l) l' -> Forall2 (fun a c => R (f a) c) l l'.
Proof.
  revert l'. induction l as [|a l IH]; intros l' H; inversion H; subst; constructor; auto.
Qed.

(* General form. Build on the printed pattern is the grammar-level substitution
     - for ALL values (they may contain braces, placeholders, anything),
     - for any parameter map in which the key "{name}" of the i-th variable holds the i-th value (any order of the
       entries, any further entries),
     - for any order (and repetition) of the variable texts handed to the replacer - a Go map iteration order,
     - names need not even be distinct (then the map determines equal values for equal names). *)
Theorem build_path_is_subst_gen p (params : list (str * str)) (order : list str) (vals : list str) :
  ppat_wf p -> pp_opts p = [] ->
  Forall2 (fun n v => lookup (braces n) params = v) (pnames (pp_req p)) vals ->
  (forall x, In x order <-> In x (var_texts (show_ppat p))) ->
  build_path (show_ppat p) params order = subst_items (p_req (to_pat p)) vals.
Proof.
  intros W Ho Hvals Hord. pose proof (req_vars_ok p W) as Hok.
  assert (Htok : texts_ok order).
  { intros o Hin. apply Hord in Hin. apply (var_texts_in p o W Ho) in Hin. apply in_map_iff in Hin.
    destruct Hin as ([n e] & <- & Hin). exists n, e. split; [exact (Hok n e Hin)|reflexivity]. }
  assert (Hsub : forall n e, In (n, e) (vars (pp_req p)) -> In (var_text n e) order).
  { intros n e Hin. apply Hord. apply (var_texts_in p _ W Ho). apply in_map_iff. exists (n, e). auto. }
  unfold build_path. fold (bpairs params order). unfold show_ppat. rewrite (flat_no_opts p Ho).
  rewrite (replace_multi_items params order Htok (pp_req p) _ (wf_req p W) Hsub) by lia.
  unfold to_pat. cbn [p_req]. rewrite subst_items_to_items.
  apply showg_lookup_csubst. unfold pnames in Hvals. apply Forall2_map_l in Hvals. exact Hvals.
Qed.

(* the caller's map built from distinct names: {name_i} -> value_i *)
Lemma lookup_caller_map p vals : NoDup (pnames (pp_req p)) -> List.length vals = List.length (vars (pp_req p)) ->
  Forall2 (fun n v => lookup (braces n) (combine (map braces (pnames (pp_req p))) vals) = v) (pnames (pp_req p)) vals.
Proof.
  intros Hnd Hlen. unfold pnames in *.
  pose proof (lookup_combine_nodup (vars (pp_req p)) vals [] Hnd Hlen (fun y _ H => H)) as H. cbn [app] in H.
  remember (combine (map braces (map fst (vars (pp_req p)))) vals) as params eqn:Ep. clear Ep Hlen Hnd.
  induction H as [|x v l l' Hx Hl IH]; cbn [map]; constructor; assumption.
Qed.

(* Build on the printed pattern, with the caller's map {name} -> value, is the grammar-level substitution - for all values *)
Theorem build_path_is_subst p (vals : list str) :
  ppat_wf p -> pp_opts p = [] -> NoDup (pnames (pp_req p)) -> List.length vals = List.length (vars (pp_req p)) ->
  build_path (show_ppat p)
             (combine (map (fun n => braces n) (pnames (pp_req p))) vals)
             (var_texts (show_ppat p))
  = subst_items (p_req (to_pat p)) vals.
Proof.
  intros W Ho Hnd Hlen. apply build_path_is_subst_gen; [exact W|exact Ho| |tauto].
  exact (lookup_caller_map p vals Hnd Hlen).
Qed.

(* ... and for every order in which the (Go map of) variable texts may be iterated *)
Corollary build_path_is_subst_any_order p (vals : list str) order :
  ppat_wf p -> pp_opts p = [] -> NoDup (pnames (pp_req p)) -> List.length vals = List.length (vars (pp_req p)) ->
  (forall x, In x order <-> In x (var_texts (show_ppat p))) ->
  build_path (show_ppat p) (combine (map braces (pnames (pp_req p))) vals) order = subst_items (p_req (to_pat p)) vals.
Proof.
  intros W Ho Hnd Hlen Hord. apply build_path_is_subst_gen; [exact W|exact Ho| |exact Hord].
  exact (lookup_caller_map p vals Hnd Hlen).
Qed.

(* ================================================================================================ *)
(* 9. the contrast with the legacy Build (one pass per variable, values rescanned)                    *)
(* ================================================================================================ *)

Module Contrast.
  Import String.
  Definition pab : ppat := {| pp_req := [PChr slash; PVar (s "a") VDef; PChr slash; PVar (s "b") VDef]; pp_opts := [] |}.
  Definition params : list (str * str) := [(s "{a}", s "{b}"); (s "{b}", s "x")].
  Example pab_text : show_ppat pab = s "/{a}/{b}".
  Proof. vm_compute. reflexivity. Qed.
  Example pab_printable : printable pab = true.
  Proof. vm_compute. reflexivity. Qed.
  Example params_shape : params = combine (map braces (pnames (pp_req pab))) [s "{b}"; s "x"].
  Proof. vm_compute. reflexivity. Qed.
  (* legacy: the pass for {b} rewrites the value "{b}" that the pass for {a} inserted *)
  Example build_contrast :
    build_path_legacy (s "/{a}/{b}") params (var_texts_legacy (s "/{a}/{b}")) = s "/x/x" /\
    build_path (s "/{a}/{b}") params (var_texts (s "/{a}/{b}")) = s "/{b}/x" /\
    subst_items (p_req (to_pat pab)) [s "{b}"; s "x"] = s "/{b}/x".
  Proof. vm_compute. repeat split. Qed.
End Contrast.

(* ================================================================================================ *)
(* 10. the built URL is matched by the pattern it was built for                                       *)
(* ================================================================================================ *)

Lemma no_grp_sre_rx e : no_grp (sre_rx e) = true.
Proof.
  induction e as [|[a o] e IH]; [reflexivity|]. cbn [sre_rx fold_right]. fold (sre_rx e). cbn [no_grp]. rewrite IH, andb_true_r.
  unfold piece_rx. cbn [fst snd]. assert (Ha : no_grp (atom_rx a) = true) by (destruct a; reflexivity).
  destruct o; cbn [op_rx]; unfold Plus, Opt; cbn [no_grp]; rewrite ?Ha; reflexivity.
Qed.

Lemma items_ok_cons_lit c its : items_ok its -> items_ok (cons_lit c its).
Proof.
  intros H n re Hin. destruct its as [|[s|n' re'] its]; cbn [cons_lit] in Hin.
  - destruct Hin as [E|[]]. discriminate.
  - destruct Hin as [E|Hin]; [discriminate|]. apply (H n re). right. exact Hin.
  - destruct Hin as [E|Hin]; [discriminate|]. apply (H n re). exact Hin.
Qed.
Lemma items_ok_to_items its : items_ok (to_items its).
Proof.
  induction its as [|[c|n e] its IH]; cbn [to_items].
  - intros n re [].
  - apply items_ok_cons_lit. exact IH.
  - intros n' re [E|Hin]; [inversion E; subst; apply no_grp_sre_rx|exact (IH n' re Hin)].
Qed.
(* every parsed printable pattern satisfies the side condition of PatFacts (no capture groups inside variables) *)
Lemma pat_ok_to_pat p : pat_ok (to_pat p).
Proof.
  split; cbn [to_pat p_req p_opts]; [apply items_ok_to_items|].
  apply Forall_forall. intros its Hin. apply in_map_iff in Hin. destruct Hin as (l & <- & _). apply items_ok_to_items.
Qed.

(* the same statement with the map written point-free *)
Corollary build_path_is_subst_eta p (vals : list str) :
  ppat_wf p -> pp_opts p = [] -> NoDup (pnames (pp_req p)) -> List.length vals = List.length (vars (pp_req p)) ->
  build_path (show_ppat p) (combine (map braces (pnames (pp_req p))) vals) (var_texts (show_ppat p))
  = subst_items (p_req (to_pat p)) vals.
Proof. exact (build_path_is_subst p vals). Qed.

Lemma vars_length_names its : List.length (vars its) = List.length (pnames its).
Proof. unfold pnames. rewrite map_length. reflexivity. Qed.

Corollary built_url_matches p vals : ppat_wf p -> pp_opts p = [] -> NoDup (pnames (pp_req p)) ->
  admissible (p_req (to_pat p)) vals ->
  pat_matches (to_pat p) (build_path (show_ppat p) (combine (map braces (pnames (pp_req p))) vals) (var_texts (show_ppat p))) = true.
Proof.
  intros W Ho Hnd Ha.
  assert (Hlen : List.length vals = List.length (vars (pp_req p))).
  { rewrite (admissible_length _ _ Ha). unfold to_pat. cbn [p_req]. rewrite item_names_to_items, vars_length_names. reflexivity. }
  rewrite (build_path_is_subst_eta p vals W Ho Hnd Hlen).
  apply (built_path_matches (to_pat p) vals (pat_ok_to_pat p)); [|exact Ha].
  unfold to_pat. cbn [p_opts]. rewrite Ho. reflexivity.
Qed.

(* with the decomposition: the values the pattern is said to denote on the built URL are the caller's values *)
Corollary built_url_den p vals : ppat_wf p -> pp_opts p = [] -> NoDup (pnames (pp_req p)) ->
  admissible (p_req (to_pat p)) vals ->
  pat_den (to_pat p) (build_path (show_ppat p) (combine (map braces (pnames (pp_req p))) vals) (var_texts (show_ppat p))) vals.
Proof.
  intros W Ho Hnd Ha.
  assert (Hlen : List.length vals = List.length (vars (pp_req p))).
  { rewrite (admissible_length _ _ Ha). unfold to_pat. cbn [p_req]. rewrite item_names_to_items, vars_length_names. reflexivity. }
  rewrite (build_path_is_subst_eta p vals W Ho Hnd Hlen).
  apply (built_path_matches (to_pat p) vals (pat_ok_to_pat p)); [|exact Ha].
  unfold to_pat. cbn [p_opts]. rewrite Ho. reflexivity.
Qed.

(* the same for a pattern accepted by the executable check [printable] *)
Corollary built_url_matches_printable p vals : printable p = true -> pp_opts p = [] ->
  admissible (p_req (to_pat p)) vals ->
  pat_matches (to_pat p) (build_path (show_ppat p) (combine (map braces (pnames (pp_req p))) vals) (var_texts (show_ppat p))) = true.
Proof.
  intros Hp Ho Ha. destruct (printable_sound p Hp) as (W & _ & Hnd).
  apply built_url_matches; [exact W|exact Ho| |exact Ha].
  unfold all_items in Hnd. rewrite Ho in Hnd. cbn [concat] in Hnd. rewrite app_nil_r in Hnd. exact Hnd.
Qed.

Print Assumptions build_path_is_subst_gen.
Print Assumptions build_path_is_subst.
Print Assumptions build_path_is_subst_any_order.
Print Assumptions built_url_matches.
Print Assumptions built_url_den.
Print Assumptions built_url_matches_printable.
Print Assumptions Contrast.build_contrast.
