(* Str.v — the string functions of Go's `strings` package that rux uses, on code point lists. *)
From Rux Require Import Base.

Definition is_slash (c : ch) : bool := N.eqb c slash.
(* Go unicode.IsSpace: '\t','\n','\v','\f','\r',' ', U+0085, U+00A0, U+1680, U+2000..U+200A,
   U+2028, U+2029, U+202F, U+205F, U+3000 *)
Definition is_space (c : ch) : bool :=
  (N.leb 9 c && N.leb c 13) || N.eqb c 32 || N.eqb c 133 || N.eqb c 160 || N.eqb c 5760
  || (N.leb 8192 c && N.leb c 8202) || N.eqb c 8232 || N.eqb c 8233 || N.eqb c 8239
  || N.eqb c 8287 || N.eqb c 12288.

(* TrimLeft / TrimRight with a character predicate; both structural *)
Fixpoint dw (p : ch -> bool) (s : str) : str :=
  match s with [] => [] | c :: r => if p c then dw p r else s end.
Fixpoint de (p : ch -> bool) (s : str) : str :=
  match s with
  | [] => []
  | c :: r => match de p r with
              | [] => if p c then [] else [c]
              | r' => c :: r'
              end
  end.
Definition trim_space (s : str) : str := de is_space (dw is_space s).

Definition last_is (p : ch -> bool) (s : str) : bool :=
  match rev s with c :: _ => p c | [] => false end.

(* strings.IndexByte *)
Fixpoint index_of (c : ch) (s : str) : option nat :=
  match s with
  | [] => None
  | x :: r => if N.eqb x c then Some 0 else match index_of c r with Some i => Some (S i) | None => None end
  end.
Definition contains_ch (c : ch) (s : str) : bool := match index_of c s with Some _ => true | None => false end.

Fixpoint count_ch (c : ch) (s : str) : nat :=
  match s with [] => 0 | x :: r => (if N.eqb x c then 1 else 0) + count_ch c r end.

(* strings.ToUpper as far as method names can tell: ASCII letters, and the two non-ASCII letters whose upper case is an
   ASCII letter (U+017F LATIN SMALL LETTER LONG S -> S, U+0131 LATIN SMALL LETTER DOTLESS I -> I); every other code point
   maps to a non-ASCII code point or to itself, which no method name contains *)
Definition upper_ch (c : ch) : ch :=
  if N.leb 97 c && N.leb c 122 then (c - 32)%N
  else if N.eqb c 383 then 83%N else if N.eqb c 305 then 73%N else c.
Definition to_upper (s : str) : str := map upper_ch s.
Definition lower_ch (c : ch) : ch := if N.leb 65 c && N.leb c 90 then (c + 32)%N else c.
Definition to_lower (s : str) : str := map lower_ch s.

(* strings.Join *)
Fixpoint join (sep : str) (l : list str) : str :=
  match l with [] => [] | [x] => x | x :: r => x ++ sep ++ join sep r end.

(* lexicographic order on code points (sort.Strings on ASCII method names) *)
Fixpoint str_leb (a b : str) : bool :=
  match a, b with
  | [], _ => true
  | _ :: _, [] => false
  | x :: a', y :: b' => if N.ltb x y then true else if N.eqb x y then str_leb a' b' else false
  end.
Fixpoint insert_sorted (x : str) (l : list str) : list str :=
  match l with [] => [x] | y :: r => if str_leb x y then x :: l else y :: insert_sorted x r end.
Definition sort_strs (l : list str) : list str := fold_right insert_sorted [] l.
