(* ChainFacts.v — onion order (C04) and abort containment (C05) of the chain machine. *)
From Rux Require Import Base Chain.
Open Scope Z_scope.

Section Facts.
Variable X : Type.
Variable eff : Type.
Variable apply : eff -> X -> X.
Variable note_aborted : bool -> X -> X.
Variable abort_status : Z -> X -> X.

Notation step := (step X eff apply note_aborted abort_status).
Notation run := (run X eff apply note_aborted abort_status).
Notation st := (st X eff).
Notation ctx := (ctx X eff).
Notation frame := (frame eff).
Notation op := (op eff).
Notation wb := (wb eff).

Inductive steps : st -> st -> Prop :=
| steps_refl s : steps s s
| steps_step s s' : steps (step s) s' -> steps s s'.

Lemma steps_trans a b c : steps a b -> steps b c -> steps a c.
Proof. induction 1; auto. intros. apply steps_step. auto. Qed.
Lemma steps_run a b : steps a b -> exists n, run n a = b.
Proof. induction 1 as [s|s s' H [n IH]]. exists O; auto. exists (S n); auto. Qed.
Lemma run_steps n a : steps a (run n a).
Proof. revert a. induction n as [|n IH]; intros a; cbn [Chain.run]. apply steps_refl. apply steps_step. apply IH. Qed.
Lemma run_add n m a : run (n + m) a = run m (run n a).
Proof. revert a. induction n as [|n IH]; intros a; cbn [Chain.run Nat.add]; auto. Qed.

Lemma wrap8_small z : -128 <= z <= 127 -> wrap8 z = z.
Proof. intros H. unfold wrap8. rewrite Z.mod_small; lia. Qed.

Lemma steps_effs l : forall (c : ctx) r k,
  steps (Run c (FOps (effs eff l ++ r) :: k))
        (Run (set_xs X eff (apply_all X eff apply l (xs c)) c) (FOps r :: k)).
Proof.
  induction l as [|t l IH]; intros c r k; cbn [effs map app apply_all fold_left].
  - destruct c; apply steps_refl.
  - apply steps_step. cbn [Chain.step]. eapply steps_trans. apply IH. cbn. apply steps_refl.
Qed.

(* The loop segment lemma: from cursor i, the for-loop of Next runs handlers i.. in onion order. *)
Lemma loop_onion (ws : list wb) :
  let s := Z.of_nat (List.length ws) in
  s <= 63 ->
  forall (m : nat) (i : nat) (c : ctx) k,
    (List.length ws - i = m)%nat -> (i <= List.length ws)%nat ->
    chain c = map (prog eff) ws -> index c = Z.of_nat i ->
    exists c', steps (Run c (FTest :: k)) (Run c' k)
      /\ xs c' = apply_all X eff apply (onion eff (skipn i ws)) (xs c)
      /\ chain c' = chain c
      /\ started c' = started c ++ seq i (List.length ws - i)
      /\ s <= index c' <= s + (s - Z.of_nat i).
Proof.
  intros s Hs m. induction m as [|m IH]; intros i c k Hm Hi Hc Hidx.
  - assert (i = List.length ws) by lia. subst i.
    exists c. repeat split; try lia.
    + apply steps_step. cbn [Chain.step]. unfold len8. rewrite Hc, map_length, Hidx.
      rewrite wrap8_small by (fold s; lia). rewrite Z.ltb_irrefl. apply steps_refl.
    + rewrite skipn_all. reflexivity.
    + rewrite Nat.sub_diag. cbn. rewrite app_nil_r. reflexivity.
  - assert (Hlt: (i < List.length ws)%nat) by lia.
    destruct (nth_error ws i) as [w|] eqn:Hw; [|apply nth_error_None in Hw; lia].
    assert (Hsk: skipn i ws = w :: skipn (S i) ws).
    { clear -Hw. revert i Hw. induction ws as [|x ws IHws]; intros [|i] Hw; simpl in *; try discriminate.
      - inversion Hw; auto.
      - apply IHws; auto. }
    assert (Hnth: nth_error (chain c) i = Some (prog eff w)).
    { rewrite Hc. rewrite nth_error_map, Hw. auto. }
    assert (Hseq: seq i (List.length ws - i) = i :: seq (S i) (List.length ws - S i)).
    { replace (List.length ws - i)%nat with (S (List.length ws - S i)) by lia. reflexivity. }
    set (c1 := start X eff i c).
    assert (S1: steps (Run c (FTest :: k)) (Run c1 (FOps (prog eff w) :: FInc :: k))).
    { apply steps_step. cbn [Chain.step]. unfold len8. rewrite Hc, map_length, Hidx.
      rewrite wrap8_small by (fold s; lia).
      destruct (Z.ltb_spec (Z.of_nat i) (Z.of_nat (List.length ws))); [|lia].
      destruct (Z.ltb_spec (Z.of_nat i) 0); [lia|].
      rewrite Nat2Z.id. rewrite <- Hc, Hnth. apply steps_refl. }
    unfold prog in S1.
    pose proof (steps_effs (pre w) c1 ((if calls w then [ONext] else []) ++ effs eff (post w)) (FInc :: k)) as S2.
    set (c2 := set_xs X eff (apply_all X eff apply (pre w) (xs c1)) c1) in *.
    destruct (calls w) eqn:Hcalls.
    + set (c3 := set_index X eff (wrap8 (index c2 + 1)) c2).
      assert (Hc3i: index c3 = Z.of_nat (S i)).
      { unfold c3, c2, c1. cbn. rewrite Hidx. rewrite wrap8_small; lia. }
      destruct (IH (S i) c3 (FOps (effs eff (post w)) :: FInc :: k)) as (c4 & S4 & T4 & C4 & ST4 & I4); try lia; auto.
      pose proof (steps_effs (post w) c4 [] (FInc :: k)) as S5. rewrite app_nil_r in S5.
      set (c5 := set_xs X eff (apply_all X eff apply (post w) (xs c4)) c4) in *.
      set (c6 := set_index X eff (wrap8 (index c5 + 1)) c5).
      exists c6. repeat split.
      * eapply steps_trans; [apply S1|]. eapply steps_trans; [apply S2|].
        apply steps_step. cbn [Chain.step app]. fold c3. eapply steps_trans; [apply S4|].
        eapply steps_trans; [apply S5|].
        apply steps_step. cbn [Chain.step]. apply steps_step. cbn [Chain.step]. fold c6.
        apply steps_step. cbn [Chain.step].
        unfold len8. unfold c6, c5. cbn. rewrite C4. unfold c3, c2, c1. cbn. rewrite Hc, map_length.
        rewrite (wrap8_small (Z.of_nat (List.length ws))) by (fold s; lia).
        rewrite wrap8_small by (fold s in I4 |- *; lia).
        destruct (Z.ltb_spec (index c4 + 1) (Z.of_nat (List.length ws))); [fold s in I4; lia|]. apply steps_refl.
      * unfold c6, c5. cbn. rewrite T4. unfold c3, c2, c1. cbn. rewrite Hsk. cbn [onion]. rewrite Hcalls.
        unfold apply_all. rewrite !fold_left_app. reflexivity.
      * unfold c6, c5. cbn. rewrite C4. auto.
      * unfold c6, c5. cbn. rewrite ST4. unfold c3, c2, c1. cbn. rewrite Hseq. rewrite <- app_assoc. reflexivity.
      * unfold c6, c5. cbn. rewrite wrap8_small; fold s in I4 |- *; lia.
      * unfold c6, c5. cbn. rewrite wrap8_small; fold s in I4 |- *; lia.
    + cbn [app] in S2.
      pose proof (steps_effs (post w) c2 [] (FInc :: k)) as S3. rewrite app_nil_r in S3.
      set (c3 := set_xs X eff (apply_all X eff apply (post w) (xs c2)) c2) in *.
      set (c4 := set_index X eff (wrap8 (index c3 + 1)) c3).
      assert (Hc4i: index c4 = Z.of_nat (S i)).
      { unfold c4, c3, c2, c1. cbn. rewrite Hidx. rewrite wrap8_small; lia. }
      destruct (IH (S i) c4 k) as (c5 & S5 & T5 & C5 & ST5 & I5); try lia; auto.
      exists c5. repeat split; try lia.
      * eapply steps_trans; [apply S1|]. cbn [app]. eapply steps_trans; [apply S2|].
        eapply steps_trans; [apply S3|]. apply steps_step. cbn [Chain.step]. apply steps_step. cbn [Chain.step]. fold c4. apply S5.
      * rewrite T5. unfold c4, c3, c2, c1. cbn. rewrite Hsk. cbn [onion]. rewrite Hcalls.
        unfold apply_all. rewrite !fold_left_app. reflexivity.
      * rewrite C5. auto.
      * rewrite ST5. unfold c4, c3, c2, c1. cbn. rewrite Hseq. rewrite <- app_assoc. reflexivity.
Qed.

(* C04: a chain of at most 63 well-behaved handlers runs to completion without panic, applies
   the effects in onion order, and starts every handler exactly once, in order *)
Theorem onion_order (ws : list wb) x0 : Z.of_nat (List.length ws) <= 63 ->
  exists n c, run n (init X eff (map (prog eff) ws) x0) = Halt c
    /\ xs c = apply_all X eff apply (onion eff ws) x0
    /\ started c = seq 0 (List.length ws).
Proof.
  intros Hs.
  set (c0 := {| index := 0; chain := map (prog eff) ws; started := []; xs := x0 |} : ctx).
  destruct (loop_onion ws Hs (List.length ws) 0%nat c0 [FOps []]) as (c' & S & T & C & STt & I); try lia; auto.
  assert (St: steps (init X eff (map (prog eff) ws) x0) (Halt c')).
  { apply steps_step. cbn [Chain.step init init_ctx]. change (wrap8 (-1 + 1)) with 0. fold c0.
    eapply steps_trans; [apply S|]. apply steps_step. cbn [Chain.step]. apply steps_step. cbn [Chain.step]. apply steps_refl. }
  destruct (steps_run _ _ St) as [n Hn]. exists n, c'. repeat split; auto.
  rewrite STt. cbn. rewrite Nat.sub_0_r. reflexivity.
Qed.

(* ================= abort ================= *)
Fixpoint count_next (ops : list op) : Z :=
  match ops with [] => 0 | ONext :: r => 1 + count_next r | _ :: r => count_next r end.
Fixpoint debt (k : list frame) : Z :=
  match k with
  | [] => 0
  | FOps ops :: r => count_next ops + debt r
  | FTest :: r => debt r
  | FInc :: r => 1 + debt r
  end.
Lemma count_next_nonneg ops : 0 <= count_next ops.
Proof. induction ops as [|o r IH]; cbn [count_next]; [lia|]. destruct o; lia. Qed.
Lemma debt_nonneg k : 0 <= debt k.
Proof.
  induction k as [|f k IH]; cbn [debt]; [lia|]. destruct f as [ops| |]; try lia.
  pose proof (count_next_nonneg ops). lia.
Qed.

(* "aborted": the cursor is parked at/after the sentinel with enough head-room for all pending increments *)
Definition aborted (s : st) : Prop :=
  match s with
  | Run c k => Z.of_nat (List.length (chain c)) <= 63 /\ 63 <= index c /\ index c + debt k <= 127
  | Halt c => Z.of_nat (List.length (chain c)) <= 63 /\ 63 <= index c <= 127
  | Panicked (PUser _) c => Z.of_nat (List.length (chain c)) <= 63 /\ 63 <= index c <= 127
  | Panicked PIndex _ => False
  end.
Definition started_of (s : st) := match s with Run c _ | Halt c | Panicked _ c => started c end.
Definition is_index_panic (s : st) := match s with Panicked PIndex _ => True | _ => False end.

Lemma aborted_step s : aborted s -> aborted (step s) /\ started_of (step s) = started_of s /\ ~ is_index_panic (step s).
Proof.
  destruct s as [c k|c|p c]; cbn [aborted Chain.step started_of is_index_panic]; try tauto.
  2:{ destruct p; cbn; [|tauto]. intros H. repeat split; try lia; auto. }
  intros (Hs & Hlo & Hhi).
  destruct k as [|[ops| |] k]; cbn [aborted Chain.step started_of is_index_panic debt] in *.
  - repeat split; auto; lia.
  - pose proof (debt_nonneg k) as Hk.
    destruct ops as [|[e| | |code| |v] r]; cbn [aborted Chain.step started_of is_index_panic debt count_next set_index set_xs index chain started] in *;
      try (pose proof (count_next_nonneg r) as Hr).
    + repeat split; auto; lia.
    + repeat split; auto; lia.
    + rewrite wrap8_small by lia. repeat split; auto; lia.
    + unfold abort_idx. repeat split; auto; lia.
    + unfold abort_idx. repeat split; auto; lia.
    + repeat split; auto; lia.
    + repeat split; auto; lia.
  - pose proof (debt_nonneg k). unfold len8. rewrite wrap8_small by lia.
    destruct (Z.ltb_spec (index c) (Z.of_nat (List.length (chain c)))); [lia|].
    cbn [aborted started_of is_index_panic]. repeat split; auto; lia.
  - pose proof (debt_nonneg k). rewrite wrap8_small by lia.
    cbn [aborted started_of is_index_panic debt set_index index chain started]. repeat split; auto; lia.
Qed.

(* C05: once aborted, no handler ever starts again and the machine never crashes *)
Theorem no_start_after_abort n s : aborted s ->
  started_of (run n s) = started_of s /\ ~ is_index_panic (run n s) /\ aborted (run n s).
Proof.
  revert s. induction n as [|n IH]; intros s H; cbn [Chain.run].
  - repeat split; auto. destruct s as [c k|c|[v|] c]; cbn in *; tauto.
  - destruct (aborted_step s H) as (H1 & H2 & H3).
    destruct (IH _ H1) as (E & C & A). repeat split; auto. congruence.
Qed.

(* executing Abort / AbortWithStatus establishes the invariant when the remaining debt fits *)
Lemma abort_establishes (c : ctx) r k :
  Z.of_nat (List.length (chain c)) <= 63 -> count_next r + debt k <= 64 ->
  aborted (step (Run c (FOps (OAbort :: r) :: k))).
Proof. intros. cbn [Chain.step aborted set_index index chain debt]. unfold abort_idx. lia. Qed.
Lemma abort_status_establishes (c : ctx) code r k :
  Z.of_nat (List.length (chain c)) <= 63 -> count_next r + debt k <= 64 ->
  aborted (step (Run c (FOps (OAbortStatus code :: r) :: k))).
Proof. intros. cbn [Chain.step aborted set_index set_xs index chain debt]. unfold abort_idx. lia. Qed.

(* while aborted, IsAborted() reports true *)
Lemma aborted_is_aborted (c : ctx) r k : aborted (Run c (FOps (OIsAborted :: r) :: k)) ->
  step (Run c (FOps (OIsAborted :: r) :: k)) = Run (set_xs X eff (note_aborted true (xs c)) c) (FOps r :: k).
Proof.
  intros (_ & Hlo & _). cbn [Chain.step]. unfold abort_idx.
  destruct (Z.leb_spec 63 (index c)); [reflexivity|lia].
Qed.

(* ================= the reachable-state invariant ================= *)
Fixpoint ninc (k : list frame) : Z :=
  match k with [] => 0 | FInc :: r => 1 + ninc r | _ :: r => ninc r end.
(* frames below the top: suspended handlers (their Next is already consumed) and FInc; no FTest *)
Fixpoint zero (k : list frame) : Prop :=
  match k with
  | [] => True
  | FOps ops :: r => count_next ops = 0 /\ zero r
  | FInc :: r => zero r
  | FTest :: _ => False
  end.
Definition top_ok (k : list frame) : Prop :=
  match k with
  | FOps ops :: r => count_next ops <= 1 /\ zero r
  | FTest :: r => zero r
  | _ => zero k
  end.
Definition handlers_ok (hs : list (handler eff)) : Prop :=
  Z.of_nat (List.length hs) <= 63 /\ Forall (fun h => count_next h <= 1) hs.

Definition inv (s : st) : Prop :=
  match s with
  | Run c k =>
      handlers_ok (chain c) /\ top_ok k /\ ninc k <= Z.of_nat (List.length (started c)) /\
      NoDup (started c) /\ (forall j, In j (started c) -> (j < List.length (chain c))%nat) /\
      -1 <= index c /\
      ( (* phase A: still inside the chain *)
        (index c < Z.of_nat (List.length (chain c)) /\
         (forall j, In j (started c) -> Z.of_nat j <= index c) /\
         (match k with
          | FTest :: _ => 0 <= index c /\ forall j, In j (started c) -> Z.of_nat j < index c
          | _ => True
          end))
        \/ (* phase B: cursor at/after the end (also after any Abort): no handler can start any more *)
        (Z.of_nat (List.length (chain c)) <= index c /\ index c + debt k <= 127) )
  | Halt c => NoDup (started c)
  | Panicked (PUser _) c => NoDup (started c)
  | Panicked PIndex _ => False
  end.

Lemma inv_intro (c : ctx) k :
  handlers_ok (chain c) -> top_ok k -> ninc k <= Z.of_nat (List.length (started c)) ->
  NoDup (started c) -> (forall j, In j (started c) -> (j < List.length (chain c))%nat) ->
  -1 <= index c ->
  ((index c < Z.of_nat (List.length (chain c)) /\
    (forall j, In j (started c) -> Z.of_nat j <= index c) /\
    (match k with
     | FTest :: _ => 0 <= index c /\ forall j, In j (started c) -> Z.of_nat j < index c
     | _ => True
     end))
   \/ (Z.of_nat (List.length (chain c)) <= index c /\ index c + debt k <= 127)) ->
  inv (Run c k).
Proof. intros. cbn [inv]. tauto. Qed.

Lemma ninc_nonneg k : 0 <= ninc k.
Proof. induction k as [|f k IH]; cbn [ninc]; [lia|]. destruct f; lia. Qed.
Lemma zero_debt k : zero k -> debt k = ninc k.
Proof.
  induction k as [|f k IH]; cbn [zero debt ninc]; [auto|].
  destruct f as [ops| |]; intros H.
  - destruct H as [H0 Hz]. rewrite (IH Hz). lia.
  - contradiction.
  - rewrite (IH H). reflexivity.
Qed.
Lemma zero_top_ok k : zero k -> top_ok k.
Proof.
  destruct k as [|f k]; cbn [zero top_ok]; auto.
  destruct f as [ops| |]; cbn [zero]; auto.
  - intros [H0 Hz]. split; auto. lia.
  - contradiction.
Qed.
Lemma top_ok_debt k : top_ok k -> debt k <= 1 + ninc k.
Proof.
  destruct k as [|f k]; cbn [top_ok]; [cbn; lia|].
  destruct f as [ops| |]; cbn [zero debt ninc].
  - intros [H1 Hz]. rewrite (zero_debt _ Hz). lia.
  - intros Hz. rewrite (zero_debt _ Hz). lia.
  - intros Hz. rewrite (zero_debt _ Hz). lia.
Qed.
Lemma zero_not_test (k : list frame) (P : Prop) :
  zero k -> match k with FTest :: _ => P | _ => True end.
Proof. destruct k as [|[ops| |] k]; cbn [zero]; auto. contradiction. Qed.

Lemma nodup_bound (l : list nat) n :
  NoDup l -> (forall j, In j l -> (j < n)%nat) -> (List.length l <= n)%nat.
Proof.
  intros Hnd Hlt. rewrite <- (seq_length n 0).
  apply NoDup_incl_length; auto.
  intros j Hj. apply in_seq. specialize (Hlt j Hj). lia.
Qed.
Lemma nodup_snoc (l : list nat) a : NoDup l -> ~ In a l -> NoDup (l ++ [a]).
Proof.
  induction l as [|x l IH]; intros Hnd Hni; cbn [app].
  - constructor; [intros []|constructor].
  - inversion Hnd as [|y l' Hx Hl]; subst. constructor.
    + rewrite in_app_iff. intros [Hin|Hin]; [contradiction|].
      destruct Hin as [->|[]]. apply Hni. left; reflexivity.
    + apply IH; auto. intros Hin. apply Hni. right; exact Hin.
Qed.

Lemma inv_init hs x : handlers_ok hs -> inv (init X eff hs x).
Proof.
  intros Hok. unfold init, init_ctx. apply inv_intro; cbn [chain started index top_ok zero ninc count_next length].
  - exact Hok.
  - split; [lia|exact I].
  - lia.
  - constructor.
  - intros j [].
  - lia.
  - left. split; [lia|]. split; [intros j []|exact I].
Qed.

Lemma inv_step s : inv s -> inv (step s).
Proof.
  destruct s as [c k|c|[v|] c]; cbn [Chain.step]; auto.
  intros Hinv. pose proof Hinv as (Hok & Htop & Hninc & Hnd & Hlt & Hlo & Hph).
  assert (Hlen: Z.of_nat (List.length (started c)) <= Z.of_nat (List.length (chain c))).
  { apply Nat2Z.inj_le. apply nodup_bound; auto. }
  pose proof Hok as (Hl63 & Hall).
  pose proof (top_ok_debt _ Htop) as Hdebt.
  destruct k as [|[ops| |] k].
  - (* empty stack *) cbn [Chain.step inv]. exact Hnd.
  - destruct ops as [|[e| | |code| |v] r]; cbn [Chain.step];
      cbn [top_ok] in Htop; destruct Htop as [Hc Hz];
      cbn [ninc count_next debt] in Hninc, Hc, Hdebt, Hph;
      pose proof (zero_debt _ Hz) as Hdk; pose proof (ninc_nonneg k) as Hnk.
    + (* handler returns *)
      apply inv_intro; auto.
      * apply zero_top_ok; exact Hz.
      * destruct Hph as [(Ha & Hb & _)|(Ha & Hb)]; [left|right].
        -- split; [exact Ha|]. split; [exact Hb|]. apply zero_not_test; exact Hz.
        -- split; lia.
    + (* effect *)
      apply inv_intro; cbn [chain started index set_xs top_ok ninc debt]; auto.
    + (* Next *)
      pose proof (count_next_nonneg r) as Hr.
      assert (Hw: wrap8 (index c + 1) = index c + 1).
      { apply wrap8_small. destruct Hph as [(Ha & _)|(Ha & Hb)]; lia. }
      rewrite Hw.
      apply inv_intro; cbn [chain started index set_index top_ok zero ninc debt]; auto.
      * split; [lia|exact Hz].
      * lia.
      * destruct Hph as [(Ha & Hb & _)|(Ha & Hb)].
        -- destruct (Z_lt_le_dec (index c + 1) (Z.of_nat (List.length (chain c)))) as [Hlt'|Hge'].
           ++ left. split; [exact Hlt'|]. split.
              ** intros j Hj. specialize (Hb j Hj). lia.
              ** split; [lia|]. intros j Hj. specialize (Hb j Hj). lia.
           ++ right. split; lia.
        -- right. split; lia.
    + (* Abort *)
      apply inv_intro; cbn [chain started index set_index top_ok ninc debt]; auto.
      * unfold abort_idx; lia.
      * right. unfold abort_idx. split; lia.
    + (* AbortWithStatus *)
      apply inv_intro; cbn [chain started index set_index set_xs top_ok ninc debt]; auto.
      * unfold abort_idx; lia.
      * right. unfold abort_idx. split; lia.
    + (* IsAborted *)
      apply inv_intro; cbn [chain started index set_xs top_ok ninc debt]; auto.
    + (* panic *)
      cbn [inv]. exact Hnd.
  - (* loop test *)
    cbn [top_ok] in Htop. cbn [ninc debt] in Hninc, Hdebt, Hph.
    cbn [Chain.step]. unfold len8. rewrite wrap8_small by lia.
    destruct Hph as [(Ha & Hb & Hi0 & Hc)|(Ha & Hb)].
    + destruct (Z.ltb_spec (index c) (Z.of_nat (List.length (chain c)))) as [_|Hge]; [|lia].
      destruct (Z.ltb_spec (index c) 0) as [Hneg|_]; [lia|].
      assert (Hi: (Z.to_nat (index c) < List.length (chain c))%nat) by lia.
      destruct (nth_error (chain c) (Z.to_nat (index c))) as [h|] eqn:Hnth;
        [|apply nth_error_None in Hnth; lia].
      apply inv_intro; cbn [chain started index start top_ok zero ninc debt]; auto.
      * split; [|exact Htop].
        rewrite Forall_forall in Hall. apply Hall. eapply nth_error_In; exact Hnth.
      * rewrite app_length. cbn [length]. lia.
      * apply nodup_snoc; auto. intros Hin. specialize (Hc _ Hin). lia.
      * intros j Hj. apply in_app_iff in Hj. destruct Hj as [Hj|[<-|[]]]; auto.
      * left. split; [exact Ha|]. split; [|exact I].
        intros j Hj. apply in_app_iff in Hj. destruct Hj as [Hj|[<-|[]]]; [auto|lia].
    + destruct (Z.ltb_spec (index c) (Z.of_nat (List.length (chain c)))) as [Hlt'|_]; [lia|].
      apply inv_intro; auto.
      * apply zero_top_ok; exact Htop.
  - (* increment *)
    cbn [top_ok zero] in Htop. cbn [ninc debt] in Hninc, Hdebt, Hph.
    pose proof (zero_debt _ Htop) as Hdk. pose proof (ninc_nonneg k) as Hnk.
    cbn [Chain.step].
    assert (Hw: wrap8 (index c + 1) = index c + 1).
    { apply wrap8_small. destruct Hph as [(Ha & _)|(Ha & Hb)]; lia. }
    rewrite Hw.
    apply inv_intro; cbn [chain started index set_index top_ok ninc debt]; auto.
    + lia.
    + lia.
    + destruct Hph as [(Ha & Hb & _)|(Ha & Hb)].
      * destruct (Z_lt_le_dec (index c + 1) (Z.of_nat (List.length (chain c)))) as [Hlt'|Hge'].
        -- left. split; [exact Hlt'|]. split.
           ++ intros j Hj. specialize (Hb j Hj). lia.
           ++ split; [lia|]. intros j Hj. specialize (Hb j Hj). lia.
        -- right. split; lia.
      * right. split; lia.
Qed.

Lemma inv_run_from n s : inv s -> inv (run n s).
Proof.
  revert s. induction n as [|n IH]; intros s H; cbn [Chain.run]; auto.
  apply IH. apply inv_step. exact H.
Qed.

Theorem inv_run n hs x : handlers_ok hs -> inv (run n (init X eff hs x)).
Proof. intros Hok. apply inv_run_from. apply inv_init. exact Hok. Qed.

Lemma inv_no_index_panic s : inv s -> ~ is_index_panic s.
Proof. destruct s as [c k|c|[v|] c]; cbn [inv is_index_panic]; tauto. Qed.
Lemma inv_started_nodup s : inv s -> NoDup (started_of s).
Proof. destruct s as [c k|c|[v|] c]; cbn [inv started_of]; tauto. Qed.

(* a chain of at most 63 handlers with at most one Next each never hits the runtime index panic ... *)
Theorem reachable_no_index_panic n hs x : handlers_ok hs -> ~ is_index_panic (run n (init X eff hs x)).
Proof. intros Hok. apply inv_no_index_panic. apply inv_run. exact Hok. Qed.
(* ... and never starts a handler twice *)
Theorem reachable_started_nodup n hs x : handlers_ok hs -> NoDup (started_of (run n (init X eff hs x))).
Proof. intros Hok. apply inv_started_nodup. apply inv_run. exact Hok. Qed.

Lemma inv_debt_after_top c (o : op) r k : count_next (o :: r) = count_next r ->
  inv (Run c (FOps (o :: r) :: k)) ->
  Z.of_nat (List.length (chain c)) <= 63 /\ count_next r + debt k <= 64.
Proof.
  intros Ho (Hok & Htop & Hninc & Hnd & Hlt & _).
  assert (Hlen: Z.of_nat (List.length (started c)) <= Z.of_nat (List.length (chain c))).
  { apply Nat2Z.inj_le. apply nodup_bound; auto. }
  destruct Hok as (Hl63 & _). cbn [top_ok] in Htop. destruct Htop as [Hc Hz].
  rewrite Ho in Hc. cbn [ninc] in Hninc. rewrite (zero_debt _ Hz). split; lia.
Qed.

Lemma inv_abort_aborted c r k : inv (Run c (FOps (OAbort :: r) :: k)) ->
  aborted (step (Run c (FOps (OAbort :: r) :: k))).
Proof.
  intros Hinv. destruct (inv_debt_after_top c OAbort r k eq_refl Hinv) as [H1 H2].
  apply abort_establishes; assumption.
Qed.
Lemma inv_abort_status_aborted c code r k : inv (Run c (FOps (OAbortStatus code :: r) :: k)) ->
  aborted (step (Run c (FOps (OAbortStatus code :: r) :: k))).
Proof.
  intros Hinv. destruct (inv_debt_after_top c (OAbortStatus code) r k eq_refl Hinv) as [H1 H2].
  apply abort_status_establishes; assumption.
Qed.

(* C05, from the initial state: once a reachable Abort executes, nobody starts afterwards *)
Theorem abort_stops_later_handlers hs x n c r k m :
  handlers_ok hs ->
  run n (init X eff hs x) = Run c (FOps (OAbort :: r) :: k) ->
  started_of (run m (step (Run c (FOps (OAbort :: r) :: k)))) = started c
  /\ ~ is_index_panic (run m (step (Run c (FOps (OAbort :: r) :: k)))).
Proof.
  intros Hok E. pose proof (inv_run n hs x Hok) as Hi. rewrite E in Hi.
  pose proof (inv_abort_aborted _ _ _ Hi) as Ha.
  destruct (no_start_after_abort m _ Ha) as (H1 & H2 & _).
  split; [|exact H2]. rewrite H1. reflexivity.
Qed.
Theorem abort_status_stops_later_handlers hs x n c code r k m :
  handlers_ok hs ->
  run n (init X eff hs x) = Run c (FOps (OAbortStatus code :: r) :: k) ->
  started_of (run m (step (Run c (FOps (OAbortStatus code :: r) :: k)))) = started c
  /\ ~ is_index_panic (run m (step (Run c (FOps (OAbortStatus code :: r) :: k)))).
Proof.
  intros Hok E. pose proof (inv_run n hs x Hok) as Hi. rewrite E in Hi.
  pose proof (inv_abort_status_aborted _ _ _ _ Hi) as Ha.
  destruct (no_start_after_abort m _ Ha) as (H1 & H2 & _).
  split; [|exact H2]. rewrite H1. reflexivity.
Qed.

(* ================= suspended handlers resume after an abort ================= *)
Fixpoint no_panic_ops (ops : list op) : bool :=
  match ops with [] => true | OPanic _ :: _ => false | _ :: r => no_panic_ops r end.
Fixpoint no_panic_stack (k : list frame) : bool :=
  match k with
  | [] => true
  | FOps ops :: r => no_panic_ops ops && no_panic_stack r
  | _ :: r => no_panic_stack r
  end.
(* what the remaining ops do to the rest of the context once aborted: effects apply, IsAborted reports true,
   AbortWithStatus still records its status, Next/Abort do nothing *)
Fixpoint exec_ops (ops : list op) (x : X) : X :=
  match ops with
  | [] => x
  | OEff e :: r => exec_ops r (apply e x)
  | OIsAborted :: r => exec_ops r (note_aborted true x)
  | OAbortStatus code :: r => exec_ops r (abort_status code x)
  | _ :: r => exec_ops r x
  end.
Fixpoint exec_stack (k : list frame) (x : X) : X :=
  match k with [] => x | FOps ops :: r => exec_stack r (exec_ops ops x) | _ :: r => exec_stack r x end.

Lemma aborted_test_step (c : ctx) k : aborted (Run c (FTest :: k)) -> step (Run c (FTest :: k)) = Run c k.
Proof.
  intros (Hs & Hlo & Hhi). cbn [Chain.step]. unfold len8. rewrite wrap8_small by lia.
  destruct (Z.ltb_spec (index c) (Z.of_nat (List.length (chain c)))); [lia|reflexivity].
Qed.

Theorem aborted_resumes c k : aborted (Run c k) -> no_panic_stack k = true ->
  exists n c', run n (Run c k) = Halt c' /\ xs c' = exec_stack k (xs c) /\ started c' = started c.
Proof.
  revert c. induction k as [|f k IHk]; intros c Hab Hnp.
  - exists 1%nat, c. cbn [Chain.run Chain.step exec_stack]. auto.
  - destruct f as [ops| |].
    + cbn [no_panic_stack] in Hnp. apply andb_true_iff in Hnp. destruct Hnp as [Hno Hnk].
      revert c Hab Hno. induction ops as [|o r IHr]; intros c Hab Hno.
      * destruct (aborted_step _ Hab) as (H1 & _ & _). cbn [Chain.step] in H1.
        destruct (IHk c H1 Hnk) as (n & c' & Hr & Hx & Hs).
        exists (S n), c'. cbn [Chain.run Chain.step exec_stack exec_ops]. auto.
      * destruct (aborted_step _ Hab) as (H1 & _ & _).
        destruct o as [e| | |code| |v]; cbn [no_panic_ops] in Hno; try discriminate.
        -- cbn [Chain.step] in H1. destruct (IHr _ H1 Hno) as (n & c' & Hr & Hx & Hs).
           exists (S n), c'. cbn [Chain.run Chain.step exec_stack exec_ops].
           split; [exact Hr|]. split; [rewrite Hx|rewrite Hs]; reflexivity.
        -- cbn [Chain.step] in H1.
           pose proof (aborted_test_step _ _ H1) as E.
           destruct (aborted_step _ H1) as (H2 & _ & _). rewrite E in H2.
           destruct (IHr _ H2 Hno) as (n & c' & Hr & Hx & Hs).
           exists (S (S n)), c'. cbn [Chain.run exec_stack exec_ops].
           replace (step (Run c (FOps (ONext :: r) :: k)))
             with (Run (set_index X eff (wrap8 (index c + 1)) c) (FTest :: FOps r :: k)) by reflexivity.
           rewrite E.
           split; [exact Hr|]. split; [rewrite Hx|rewrite Hs]; reflexivity.
        -- cbn [Chain.step] in H1. destruct (IHr _ H1 Hno) as (n & c' & Hr & Hx & Hs).
           exists (S n), c'. cbn [Chain.run Chain.step exec_stack exec_ops].
           split; [exact Hr|]. split; [rewrite Hx|rewrite Hs]; reflexivity.
        -- cbn [Chain.step] in H1. destruct (IHr _ H1 Hno) as (n & c' & Hr & Hx & Hs).
           exists (S n), c'. cbn [Chain.run Chain.step exec_stack exec_ops].
           split; [exact Hr|]. split; [rewrite Hx|rewrite Hs]; reflexivity.
        -- rewrite (aborted_is_aborted _ _ _ Hab) in H1.
           destruct (IHr _ H1 Hno) as (n & c' & Hr & Hx & Hs).
           exists (S n), c'. cbn [Chain.run exec_stack exec_ops].
           rewrite (aborted_is_aborted _ _ _ Hab).
           split; [exact Hr|]. split; [rewrite Hx|rewrite Hs]; reflexivity.
    + cbn [no_panic_stack] in Hnp.
      pose proof (aborted_test_step _ _ Hab) as E.
      destruct (aborted_step _ Hab) as (H1 & _ & _). rewrite E in H1.
      destruct (IHk _ H1 Hnp) as (n & c' & Hr & Hx & Hs).
      exists (S n), c'. cbn [Chain.run exec_stack]. rewrite E. auto.
    + cbn [no_panic_stack] in Hnp.
      destruct (aborted_step _ Hab) as (H1 & _ & _). cbn [Chain.step] in H1.
      pose proof (aborted_test_step _ _ H1) as E.
      destruct (aborted_step _ H1) as (H2 & _ & _). rewrite E in H2.
      destruct (IHk _ H2 Hnp) as (n & c' & Hr & Hx & Hs).
      exists (S (S n)), c'. cbn [Chain.run exec_stack].
      replace (step (Run c (FInc :: k)))
        with (Run (set_index X eff (wrap8 (index c + 1)) c) (FTest :: k)) by reflexivity.
      rewrite E.
      split; [exact Hr|]. split; [rewrite Hx|rewrite Hs]; reflexivity.
Qed.

End Facts.
