(* Writer.v — model of response_wirter.go (responseWriter) and of the Context methods that write
   through it; plus the specification of what the underlying http.ResponseWriter must receive. *)
From Rux Require Import Base.
Open Scope Z_scope.

(* what the underlying http.ResponseWriter (+Flusher) receives *)
Inductive wev := WH (code : Z) | W (accepted : str) | F.

(* writer operations a handler can perform (through c.Resp / c.SetStatus / net/http helpers) *)
Inductive wop :=
| WSetStatus (z : Z)                (* c.SetStatus / c.Resp.WriteHeader *)
| WSetHeader (k v : str)            (* c.SetHeader *)
| WWrite (b : str)                  (* c.Resp.Write *)
| WFlush                            (* c.Resp.(http.Flusher).Flush *)
| WHttpError (msg : str) (code : Z) (* http.Error(c.Resp, msg, code) *)
| WRedirect (url : str) (code : Z)  (* http.Redirect on a non-GET request: Location + WriteHeader *)
| WObs.                             (* snapshot of c.StatusCode(), c.Length() *)

(* script: for each call of the underlying Write, how many bytes it accepts at most (short writes) *)
Record wstate := { status : Z; length : Z; script : list nat; log : list wev; obs : list (Z * Z) }.

Definition winit (sc : list nat) : wstate := {| status := 0; length := -1; script := sc; log := []; obs := [] |}.

Definition written (w : wstate) : bool := negb (length w =? -1).

(* responseWriter.WriteHeader: only remembers the status *)
Definition write_header (z : Z) (w : wstate) : wstate :=
  if (z >? 0) && negb (status w =? z)
  then {| status := z; length := length w; script := script w; log := log w; obs := obs w |}
  else w.

(* responseWriter.ensureWriteHeader *)
Definition ensure (w : wstate) : wstate :=
  if written w then w else
  let st := if status w =? 0 then 200 else status w in
  {| status := st; length := 0; script := script w; log := log w ++ [WH st]; obs := obs w |}.

Definition accept (sc : list nat) (b : str) : str * list nat :=
  match sc with
  | [] => (b, [])
  | n :: r => (firstn n b, r)
  end.

(* responseWriter.Write *)
Definition write (b : str) (w : wstate) : wstate :=
  let w := ensure w in
  let '(acc, sc) := accept (script w) b in
  {| status := status w; length := length w + Z.of_nat (List.length acc); script := sc;
     log := log w ++ [W acc]; obs := obs w |}.

(* responseWriter.Flush (after repair F08 it commits the header first; legacy = before the repair) *)
Definition flush_gen (fixed : bool) (w : wstate) : wstate :=
  let w := if fixed then ensure w else w in
  {| status := status w; length := length w; script := script w; log := log w ++ [F]; obs := obs w |}.
Definition flush := flush_gen true.

Definition newline : ch := 10%N.

Definition wstep_gen (fixed : bool) (w : wstate) (o : wop) : wstate :=
  match o with
  | WSetStatus z => write_header z w
  | WSetHeader _ _ => w
  | WWrite b => write b w
  | WFlush => flush_gen fixed w
  | WHttpError msg code => write (msg ++ [newline]) (write_header code w)
  | WRedirect _ code => write_header code w
  | WObs => {| status := status w; length := length w; script := script w; log := log w;
               obs := obs w ++ [(status w, length w)] |}
  end.
Definition wstep := wstep_gen true.
Definition wrun (ops : list wop) (w : wstate) : wstate := fold_left wstep ops w.
(* a request: all writer ops of the chain in execution order, then the dispatcher's final commit *)
Definition wrequest (sc : list nat) (ops : list wop) : wstate := ensure (wrun ops (winit sc)).

(* ---------------- specification ---------------- *)
(* the status that must be committed: the last positive status set before the first write/flush *)
Fixpoint spec_status (st : Z) (ops : list wop) : Z :=
  match ops with
  | [] => if st =? 0 then 200 else st
  | WSetStatus z :: r | WRedirect _ z :: r => spec_status (if z >? 0 then z else st) r
  | WHttpError _ z :: _ => let st := if z >? 0 then z else st in if st =? 0 then 200 else st
  | WWrite _ :: _ | WFlush :: _ => if st =? 0 then 200 else st
  | WSetHeader _ _ :: r | WObs :: r => spec_status st r
  end.

(* the body/flush events, in order, with the short-write script applied *)
Fixpoint spec_events (sc : list nat) (ops : list wop) : list wev :=
  match ops with
  | [] => []
  | WWrite b :: r => let '(acc, sc') := accept sc b in W acc :: spec_events sc' r
  | WHttpError msg _ :: r => let '(acc, sc') := accept sc (msg ++ [newline]) in W acc :: spec_events sc' r
  | WFlush :: r => F :: spec_events sc r
  | _ :: r => spec_events sc r
  end.

Definition body_of (l : list wev) : str :=
  concat (map (fun e => match e with W b => b | _ => [] end) l).
Definition count_wh (l : list wev) : nat :=
  List.length (filter (fun e => match e with WH _ => true | _ => false end) l).
