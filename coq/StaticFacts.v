(* StaticFacts.v — cleaned paths stay under the root; the extension filter only matches allowed extensions. *)
From Rux Require Import Base BaseFacts Str Rx RxFacts Static.

Definition good_seg (seg : str) : Prop := seg <> [] /\ seg <> seg_dot /\ seg <> seg_dotdot.

Lemma clean_step_good st seg : Forall good_seg st -> Forall good_seg (clean_step st seg).
Proof.
  intros H. unfold clean_step. destruct seg as [|c r]; auto.
  destruct (str_eqb_spec (c :: r) seg_dot); auto.
  destruct (str_eqb_spec (c :: r) seg_dotdot).
  - destruct st; [constructor|]. inversion H; auto.
  - constructor; auto. repeat split; auto. discriminate.
Qed.
Lemma fold_clean_good segs : forall st, Forall good_seg st -> Forall good_seg (fold_left clean_step segs st).
Proof. induction segs as [|s segs IH]; intros st H; cbn; auto. apply IH. apply clean_step_good. auto. Qed.

(* for every string: path.Clean("/" ++ s) has no empty, "." or ".." element *)
Theorem clean_stack_good s : Forall good_seg (clean_stack s).
Proof.
  unfold clean_stack. apply Forall_rev. apply fold_clean_good. constructor.
Qed.

(* http.Dir(root).Open(name) stays under root: root is a prefix of the opened path element by element, and what
   follows contains no ".." *)
Theorem dir_open_confined root name :
  exists rest, dir_open root name = root ++ rest /\ Forall good_seg rest.
Proof. exists (clean_stack name). split; [reflexivity|apply clean_stack_good]. Qed.

(* the cleaned path is rooted *)
Theorem clean_rooted_rooted s : exists t, clean_rooted s = slash :: t.
Proof.
  unfold clean_rooted. destruct (clean_stack s) as [|x l]; [exists []; reflexivity|].
  cbn [join_slash]. eexists; reflexivity.
Qed.

(* ---- extension filter ---- *)
Lemma den_lit_rx e s : den (lit_rx e) s -> s = e.
Proof.
  revert s. induction e as [|c e IH]; intros s H; cbn [lit_rx] in H.
  - inversion H; reflexivity.
  - inversion H as [| | | |a b s1 s2 Ha Hb| | | | |]; subst. inversion Ha; subst. cbn. f_equal. apply IH; auto.
Qed.
Lemma den_alt_exts exts s : den (alt_exts exts) s -> In s exts.
Proof.
  induction exts as [|e r IH]; intros H; cbn [alt_exts] in H.
  - inversion H as [| | |neg rs c Hc| | | | | |]; subst. cbn in Hc. discriminate.
  - destruct r as [|e2 r'].
    + left. symmetry. apply den_lit_rx; auto.
    + inversion H as [| | | | |a b u Ha|a b u Hb| | |]; subst.
      * left. symmetry. apply den_lit_rx; auto.
      * right. apply IH; auto.
Qed.
(* every string the StaticFiles pattern variable matches ends in "." ++ one of the allowed extensions *)
Theorem ext_filter_sound exts s : den (ext_filter exts) s ->
  exists stem e, In e exts /\ s = stem ++ dotc :: e /\ stem <> [].
Proof.
  unfold ext_filter. intros H.
  inversion H as [| | | |a b s1 s2 Ha Hb| | | | |]; subst.
  inversion Hb as [| | | |a b s3 s4 Hc Hd| | | | |]; subst.
  inversion Hc; subst. apply den_alt_exts in Hd.
  exists s1, s4. repeat split; auto.
  unfold Plus in Ha. inversion Ha as [| | | |a b u v Hu Hv| | | | |]; subst.
  inversion Hu; subst. discriminate.
Qed.
Corollary ext_filter_matches exts s : matches (ext_filter exts) s = true ->
  exists stem e, In e exts /\ s = stem ++ dotc :: e /\ stem <> [].
Proof. intros H. apply matches_iff in H. apply ext_filter_sound; auto. Qed.

(* StripPrefix hands the handler exactly the rest of the path *)
Theorem strip_prefix_spec prefix path rest : strip_prefix prefix path = Some rest -> path = prefix ++ rest.
Proof.
  unfold strip_prefix. destruct (has_prefix prefix path) eqn:E; [|discriminate].
  intros H. inversion H; subst. apply has_prefix_split in E. destruct E as [t ->].
  rewrite skipn_app, skipn_all, Nat.sub_diag. reflexivity.
Qed.
