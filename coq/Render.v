(* Render.v — response helpers of Context (context_render.go) and pkg/render: status, Content-Type, body.
   Encoders (encoding/json, encoding/xml) are section variables. The writer is Writer.v's. *)
From Rux Require Import Base Str Writer.
Open Scope Z_scope.

(* response state as the helpers see it: the Content-Type header and the rux writer *)
Record rsp := { ctype : option str; rw : wstate; nerr : nat }.
Definition rsp_init (preset : option str) (sc : list nat) : rsp := {| ctype := preset; rw := winit sc; nerr := 0 |}.

Definition set_ct (v : str) (r : rsp) : rsp := {| ctype := Some v; rw := rw r; nerr := nerr r |}.           (* Header().Set *)
Definition write_ct (v : str) (r : rsp) : rsp := match ctype r with Some _ => r | None => set_ct v r end.      (* pkg/render writeContentType *)
Definition with_rw (f : wstate -> wstate) (r : rsp) : rsp := {| ctype := ctype r; rw := f (rw r); nerr := nerr r |}.
Definition add_err (r : rsp) : rsp := {| ctype := ctype r; rw := rw r; nerr := S (nerr r) |}.

Definition ct_text : str := [116;101;120;116;47;112;108;97;105;110;59;32;99;104;97;114;115;101;116;61;117;116;102;45;56]%N.   (* text/plain; charset=utf-8 *)
Definition ct_html : str := [116;101;120;116;47;104;116;109;108;59;32;99;104;97;114;115;101;116;61;117;116;102;45;56]%N.      (* text/html; charset=utf-8 *)
Definition ct_json : str := [97;112;112;108;105;99;97;116;105;111;110;47;106;115;111;110;59;32;99;104;97;114;115;101;116;61;117;116;102;45;56]%N. (* application/json; charset=utf-8 *)
Definition ct_jsonp : str := [97;112;112;108;105;99;97;116;105;111;110;47;106;97;118;97;115;99;114;105;112;116;59;32;99;104;97;114;115;101;116;61;117;116;102;45;56]%N. (* application/javascript; charset=utf-8 *)
Definition ct_xml : str := [97;112;112;108;105;99;97;116;105;111;110;47;120;109;108;59;32;99;104;97;114;115;101;116;61;117;116;102;45;56]%N. (* application/xml; charset=utf-8 *)

(* Context.Blob (Text, HTML, JSONBytes go through it): status, Content-Type (set, not merged), body *)
Definition ctx_blob (status : Z) (ct : str) (data : str) (r : rsp) : rsp :=
  let r := set_ct ct (with_rw (write_header status) r) in
  match data with [] => r | _ => with_rw (write data) r end.
Definition ctx_no_content (r : rsp) : rsp := with_rw (write_header 204) r.
Definition ctx_http_error (msg : str) (status : Z) (r : rsp) : rsp := with_rw (fun w => wstep w (WHttpError msg status)) r.

(* pkg/render Blob (Text, Plain, TextBytes, HTML, HTMLBytes go through it): the Content-Type only when none is present,
   then the bytes (nothing is written for empty data) *)
Definition render_blob (ct : str) (data : str) (r : rsp) : rsp :=
  let r := write_ct ct r in
  match data with [] => r | _ => with_rw (write data) r end.

Section Encoders.
Variable V : Type.
Variable enc_json : V -> option str.     (* json.Encoder.Encode output (with its trailing newline), None = error *)
Variable enc_xml : V -> option str.      (* xml.Encoder.Encode output, None = error *)
Variable xml_header : str.

(* pkg/render renderers: they never override a Content-Type that is already set *)
Definition render_json (v : V) (r : rsp) : rsp * bool :=       (* (state, ok) *)
  let r := write_ct ct_json r in
  match enc_json v with Some b => (with_rw (write b) r, true) | None => (r, false) end.
Definition render_jsonp (cb : str) (v : V) (r : rsp) : rsp * bool :=
  let r := with_rw (write (cb ++ [40%N])) (write_ct ct_jsonp r) in
  match enc_json v with
  | Some b => (with_rw (write [41%N; 59%N]) (with_rw (write b) r), true)
  | None => (r, false)
  end.
Definition render_xml (v : V) (r : rsp) : rsp * bool :=
  let r := with_rw (write xml_header) (write_ct ct_xml r) in
  match enc_xml v with Some b => (with_rw (write b) r, true) | None => (r, false) end.
(* Context.Respond: status, render, errors go to c.Errors *)
Definition respond (status : Z) (f : rsp -> rsp * bool) (r : rsp) : rsp :=
  let '(r', ok) := f (with_rw (write_header status) r) in if ok then r' else add_err r'.

(* ---- content negotiation: render.Auto ---- *)
Inductive rkind := KJson | KHtml | KText | KXml.
Definition mime_json : str := [97;112;112;108;105;99;97;116;105;111;110;47;106;115;111;110]%N.
Definition mime_html : str := [116;101;120;116;47;104;116;109;108]%N.
Definition mime_text : str := [116;101;120;116;47;112;108;97;105;110]%N.
Definition mime_xml : str := [97;112;112;108;105;99;97;116;105;111;110;47;120;109;108]%N.
Definition mime_xml2 : str := [116;101;120;116;47;120;109;108]%N.
Definition supported (a : str) : option rkind :=
  if str_eqb a mime_json then Some KJson else if str_eqb a mime_html then Some KHtml
  else if str_eqb a mime_text then Some KText else if str_eqb a mime_xml || str_eqb a mime_xml2 then Some KXml else None.
(* the loop of Auto over the parsed Accept list (empty list = the fallback type text/plain) *)
Fixpoint auto_loop (accepts : list str) : option rkind :=
  match accepts with
  | [] => None
  | a :: r => match supported a with Some k => Some k | None => auto_loop r end
  end.
Definition auto_pick (accepts : list str) : option rkind :=
  auto_loop (match accepts with [] => [mime_text] | _ => accepts end).
End Encoders.
