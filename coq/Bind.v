(* Bind.v — binding.Auto: which source a request is bound from, and the decode-then-validate glue.
   The codecs (formam, encoding/json, encoding/xml, gookit/validate) are section variables. *)
From Rux Require Import Base Str Consts.

Fixpoint contains (sub s : str) : bool :=       (* strings.Contains *)
  has_prefix sub s || match s with [] => false | _ :: r => contains sub r end.

Inductive source := SQuery | SForm | SMultipart | SJson | SXml | SError.

Definition m_urlencoded : str := [47;120;45;119;119;119;45;102;111;114;109;45;117;114;108;101;110;99;111;100;101;100]%N. (* /x-www-form-urlencoded *)
Definition m_formdata : str := [47;102;111;114;109;45;100;97;116;97]%N.   (* /form-data *)
Definition m_json : str := [47;106;115;111;110]%N.                         (* /json *)
Definition m_xml : str := [47;120;109;108]%N.                              (* /xml *)

Definition has_body (meth : str) : bool := str_eqb meth POST || str_eqb meth PUT || str_eqb meth PATCH.

(* binding.Auto's dispatch: on the media type - the text of the Content-Type before the first ';', trimmed - by its
   subtype (strings.HasSuffix). (Repair F20; before it the four tests were strings.Contains on the whole header value.) *)
Fixpoint upto_semi (s : str) : str :=
  match s with [] => [] | c :: r => if N.eqb c 59%N then [] else c :: upto_semi r end.
Definition media_type (ctype : str) : str := trim_space (upto_semi ctype).
Definition has_suffix (suf s : str) : bool := has_prefix (rev suf) (rev s).       (* strings.HasSuffix *)

Definition auto_source (meth ctype : str) : source :=
  if negb (has_body meth) then SQuery
  else let mt := media_type ctype in
    if has_suffix m_urlencoded mt then SForm
    else if has_suffix m_formdata mt then SMultipart
    else if has_suffix m_json mt then SJson
    else if has_suffix m_xml mt then SXml
    else SError.

(* the dispatch before repair F20 *)
Definition auto_source_legacy (meth ctype : str) : source :=
  if negb (has_body meth) then SQuery
  else if contains m_urlencoded ctype then SForm
  else if contains m_formdata ctype then SMultipart
  else if contains m_json ctype then SJson
  else if contains m_xml ctype then SXml
  else SError.

(* the documented table, on the media type (the part of Content-Type before any parameters) *)
Definition mt_urlencoded : str := ([97;112;112;108;105;99;97;116;105;111;110]%N : str) ++ m_urlencoded.   (* application/x-www-form-urlencoded *)
Definition mt_multipart : str := ([109;117;108;116;105;112;97;114;116]%N : str) ++ m_formdata.             (* multipart/form-data *)
Definition mt_json : str := ([97;112;112;108;105;99;97;116;105;111;110]%N : str) ++ m_json.                (* application/json *)
Definition mt_xml : str := ([97;112;112;108;105;99;97;116;105;111;110]%N : str) ++ m_xml.                  (* application/xml *)
Definition mt_textxml : str := ([116;101;120;116]%N : str) ++ m_xml.                                       (* text/xml *)
Definition doc_source (mt : str) : source :=
  if str_eqb mt mt_urlencoded then SForm else if str_eqb mt mt_multipart then SMultipart
  else if str_eqb mt mt_json then SJson else if str_eqb mt mt_xml || str_eqb mt mt_textxml then SXml else SError.

(* decode, then validate (binding.Validate is skipped when the validator is disabled) *)
Section Glue.
Variable V : Type.                       (* the struct type *)
Variable I : Type.                       (* the raw input of one source *)
Variable decode : I -> option V.         (* None = the codec reports an error *)
Variable valid : V -> bool.              (* gookit/validate on the decoded struct *)
Definition bind_with (validator_on : bool) (i : I) : option V :=
  match decode i with
  | None => None
  | Some v => if validator_on && negb (valid v) then None else Some v
  end.
End Glue.
