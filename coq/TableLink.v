(* TableLink.v — the string-level router (Table.reg_routes: compile_dyn + compile_re on the pattern text, the
   model that is executed against the implementation) equals the grammar-level router (PatTable.build, about
   which SelectFacts proves the documented selection rule) on printable tables.

     entry / entry_sroute / entry_rdef / wf_entry     printable tables and their two readings
     rt_equiv                                          routers equal up to the compiled expressions, which match alike
     match_equiv, probe_equiv, quick_equiv             equivalent routers answer every lookup alike (route id AND
                                                       parameters) and stay equivalent (cache included)
     reg_route_equiv, reg_routes_equiv                 registration of the texts succeeds and yields a router
                                                       equivalent to the grammar-level build
     wf_entry_sroute                                   wf_entry e -> wf_sroute (entry_sroute e)
     string_level_lookup / string_level_selection      the payoff: match_ on the string-level router = match_ on the
                                                       grammar-level one = spec_select
     string_level_quick / string_level_ladder          the same for QuickMatch and the fallback ladder *)
From Coq Require String.
From Rux Require Import Base BaseFacts Str Consts Norm NormFacts Rx RxFacts RxParse Pattern Pat PatFacts
  Cache CacheFacts Table TableFacts PatTable RoundTrip SelectFacts.

(* ================================================================================================ *)
(* 1. printable tables                                                                                *)
(* ================================================================================================ *)

Inductive entry :=
| EStatic (ms : list str) (path : str)          (* methods + fixed path *)
| EDyn (ms : list str) (p : ppat).              (* methods + printable pattern *)

Definition entry_methods (e : entry) : list str := match e with EStatic ms _ => ms | EDyn ms _ => ms end.
Definition entry_path (e : entry) : str := match e with EStatic _ path => path | EDyn _ p => show_ppat p end.
Definition entry_pat (e : entry) : option pat := match e with EStatic _ _ => None | EDyn _ p => Some (to_pat p) end.

Definition entry_sroute (e : entry) : sroute :=
  {| s_methods := entry_methods e; s_path := entry_path e; s_pat := entry_pat e |}.
Definition entry_rdef (e : entry) : rdef :=
  {| df_methods := entry_methods e; df_path := entry_path e; df_nil_handler := false; df_name := [] |}.

(* methods: non-empty, each one of the nine (good_info), duplicate-free (wf_sroute; '/'-freeness follows from membership) *)
Definition methods_ok (ms : list str) : bool :=
  negb (nil_b ms) && forallb (fun m => mem m any_methods) ms && nodupb ms.
Definition rootedb (p : str) : bool := match p with c :: _ => N.eqb c slash | [] => false end.
Definition wf_entryb (e : entry) : bool :=
  methods_ok (entry_methods e) &&
  match e with
  | EStatic _ path => is_fixed_path path && rootedb path
  | EDyn _ p => printable p
  end.
Definition wf_entry (e : entry) : Prop := wf_entryb e = true.

Lemma rootedb_rooted p : rootedb p = true -> rooted p.
Proof. destruct p as [|c p]; [discriminate|]. cbn [rootedb rooted]. apply N.eqb_eq. Qed.

Lemma wf_entry_methods e : wf_entry e ->
  entry_methods e <> [] /\ (forall m, In m (entry_methods e) -> In m any_methods) /\ NoDup (entry_methods e) /\
  good_info false (entry_methods e) = true.
Proof.
  unfold wf_entry, wf_entryb, methods_ok. rewrite !andb_true_iff. intros [[[H1 H2] H3] _].
  split; [destruct (entry_methods e); [discriminate|discriminate]|].
  split; [intros m Hm; apply mem_in; rewrite forallb_forall in H2; apply H2; exact Hm|].
  split; [apply nodupb_NoDup; exact H3|].
  unfold good_info. rewrite H1, H2. reflexivity.
Qed.

(* ================================================================================================ *)
(* 2. equivalence of routers                                                                          *)
(* ================================================================================================ *)

Definition kind_equiv (k1 k2 : rkind) : Prop :=
  match k1, k2 with
  | KStatic, KStatic => True
  | KDyn s1 f1 re1 ns1, KDyn s2 f2 re2 ns2 =>
      s1 = s2 /\ f1 = f2 /\ ns1 = ns2 /\ forall path, match_regex re1 ns1 path = match_regex re2 ns1 path
  | _, _ => False
  end.
Definition route_equiv (r1 r2 : route) : Prop :=
  rt_methods r1 = rt_methods r2 /\ rt_path r1 = rt_path r2 /\ rt_name r1 = rt_name r2 /\
  kind_equiv (rt_kind r1) (rt_kind r2).
(* Forall2 = same number of routes, and route i of rt1 is equivalent to route i of rt2 (rt_equiv_nth below) *)
Definition rt_equiv (rt1 rt2 : router) : Prop :=
  ropts rt1 = ropts rt2 /\ counter rt1 = counter rt2 /\ stable rt1 = stable rt2 /\ regular rt1 = regular rt2 /\
  irregular rt1 = irregular rt2 /\ named rt1 = named rt2 /\ cache rt1 = cache rt2 /\
  Forall2 route_equiv (routes rt1) (routes rt2).

Lemma kind_equiv_refl k : kind_equiv k k.
Proof. destruct k; cbn; auto. Qed.
Lemma route_equiv_refl r : route_equiv r r.
Proof. unfold route_equiv. auto using kind_equiv_refl. Qed.
Lemma Forall2_refl {A} (R : A -> A -> Prop) l : (forall x, R x x) -> Forall2 R l l.
Proof. intros H. induction l; constructor; auto. Qed.
Lemma rt_equiv_refl rt : rt_equiv rt rt.
Proof. unfold rt_equiv. repeat split. apply Forall2_refl. apply route_equiv_refl. Qed.

Lemma kind_equiv_sym k1 k2 : kind_equiv k1 k2 -> kind_equiv k2 k1.
Proof.
  destruct k1 as [|s1 f1 re1 ns1], k2 as [|s2 f2 re2 ns2]; cbn; auto.
  intros (-> & -> & -> & H). repeat split. intros path. symmetry. apply H.
Qed.
Lemma kind_equiv_trans k1 k2 k3 : kind_equiv k1 k2 -> kind_equiv k2 k3 -> kind_equiv k1 k3.
Proof.
  destruct k1 as [|s1 f1 re1 ns1], k2 as [|s2 f2 re2 ns2], k3 as [|s3 f3 re3 ns3]; cbn; auto; try contradiction.
  intros (-> & -> & -> & H) (-> & -> & -> & H'). repeat split. intros path. rewrite H. apply H'.
Qed.
Lemma route_equiv_sym r1 r2 : route_equiv r1 r2 -> route_equiv r2 r1.
Proof. unfold route_equiv. intros (H1 & H2 & H3 & H4). auto using kind_equiv_sym. Qed.
Lemma route_equiv_trans r1 r2 r3 : route_equiv r1 r2 -> route_equiv r2 r3 -> route_equiv r1 r3.
Proof.
  unfold route_equiv. intros (H1 & H2 & H3 & H4) (G1 & G2 & G3 & G4).
  repeat split; try congruence. eapply kind_equiv_trans; eauto.
Qed.
Lemma Forall2_sym {A} (R : A -> A -> Prop) l1 l2 : (forall x y, R x y -> R y x) -> Forall2 R l1 l2 -> Forall2 R l2 l1.
Proof. intros HR H. induction H; constructor; auto. Qed.
Lemma Forall2_trans {A} (R : A -> A -> Prop) l1 l2 l3 : (forall x y z, R x y -> R y z -> R x z) ->
  Forall2 R l1 l2 -> Forall2 R l2 l3 -> Forall2 R l1 l3.
Proof.
  intros HR H. revert l3. induction H; intros l3 H3; inversion H3; subst; constructor; eauto.
Qed.
Lemma rt_equiv_sym rt1 rt2 : rt_equiv rt1 rt2 -> rt_equiv rt2 rt1.
Proof.
  unfold rt_equiv. intros (H1 & H2 & H3 & H4 & H5 & H6 & H7 & H8). repeat split; try congruence.
  apply Forall2_sym; [apply route_equiv_sym|exact H8].
Qed.
Lemma rt_equiv_trans rt1 rt2 rt3 : rt_equiv rt1 rt2 -> rt_equiv rt2 rt3 -> rt_equiv rt1 rt3.
Proof.
  unfold rt_equiv. intros (H1 & H2 & H3 & H4 & H5 & H6 & H7 & H8) (G1 & G2 & G3 & G4 & G5 & G6 & G7 & G8).
  repeat split; try congruence. eapply Forall2_trans; [apply route_equiv_trans|exact H8|exact G8].
Qed.

Lemma Forall2_len {A} (R : A -> A -> Prop) l1 l2 : Forall2 R l1 l2 -> List.length l1 = List.length l2.
Proof. intros H. induction H; cbn [List.length]; congruence. Qed.

Lemma Forall2_nth {A} (R : A -> A -> Prop) l1 l2 : Forall2 R l1 l2 -> forall i,
  match nth_error l1 i, nth_error l2 i with
  | Some a, Some b => R a b
  | None, None => True
  | _, _ => False
  end.
Proof.
  intros H. induction H as [|a b l1 l2 Hab H IH]; intros [|i]; cbn [nth_error]; auto. apply IH.
Qed.

(* the pointwise reading of the relation: same number of routes, route i against route i *)
Lemma rt_equiv_nth rt1 rt2 : rt_equiv rt1 rt2 ->
  List.length (routes rt1) = List.length (routes rt2) /\
  forall i r1 r2, nth_error (routes rt1) i = Some r1 -> nth_error (routes rt2) i = Some r2 ->
    rt_methods r1 = rt_methods r2 /\ rt_path r1 = rt_path r2 /\ rt_name r1 = rt_name r2 /\
    match rt_kind r1, rt_kind r2 with
    | KStatic, KStatic => True
    | KDyn s1 f1 re1 ns1, KDyn s2 f2 re2 ns2 =>
        s1 = s2 /\ f1 = f2 /\ ns1 = ns2 /\ forall path, match_regex re1 ns1 path = match_regex re2 ns1 path
    | _, _ => False
    end.
Proof.
  intros (_ & _ & _ & _ & _ & _ & _ & H). split; [eapply Forall2_len; exact H|].
  intros i r1 r2 E1 E2. pose proof (Forall2_nth _ _ _ H i) as Hi. rewrite E1, E2 in Hi. exact Hi.
Qed.

(* ================================================================================================ *)
(* 3. equivalent routers answer alike                                                                 *)
(* ================================================================================================ *)

Lemma route_equiv_match r1 r2 : route_equiv r1 r2 ->
  route_start r1 = route_start r2 /\ forall path, route_match r1 path = route_match r2 path.
Proof.
  unfold route_equiv, route_start, route_match. intros (_ & _ & _ & H).
  destruct (rt_kind r1) as [|s1 f1 re1 ns1], (rt_kind r2) as [|s2 f2 re2 ns2]; cbn in H; try contradiction; auto.
  destruct H as (-> & -> & -> & H). auto.
Qed.

Lemma scan_equiv rs1 rs2 chk ids path : Forall2 route_equiv rs1 rs2 ->
  scan rs1 chk ids path = scan rs2 chk ids path.
Proof.
  intros H. induction ids as [|i rest IH]; cbn [scan]; [reflexivity|].
  pose proof (Forall2_nth _ _ _ H i) as Hi.
  destruct (nth_error rs1 i) as [r1|], (nth_error rs2 i) as [r2|]; try contradiction; [|reflexivity].
  destruct (route_equiv_match r1 r2 Hi) as [Es Em]. rewrite Es, Em, IH. reflexivity.
Qed.

Lemma dyn_equiv rt1 rt2 m path : rt_equiv rt1 rt2 -> dyn_match rt1 m path = dyn_match rt2 m path.
Proof.
  intros (_ & _ & _ & Hrg & Hir & _ & _ & Hrs). unfold dyn_match. rewrite Hrg, Hir.
  destruct (first_node path) as [fn|]; [|reflexivity].
  rewrite (scan_equiv _ _ false _ path Hrs).
  destruct fn as [f|]; [|reflexivity]. rewrite (scan_equiv _ _ true _ path Hrs). reflexivity.
Qed.

Lemma set_cache_equiv rt1 rt2 c : rt_equiv rt1 rt2 -> rt_equiv (set_cache rt1 c) (set_cache rt2 c).
Proof.
  unfold rt_equiv, set_cache. cbn [ropts counter routes stable regular irregular named cache].
  intros (H1 & H2 & H3 & H4 & H5 & H6 & H7 & H8). repeat split; assumption.
Qed.

(* both the selected route id and the parameters, and the routers stay equivalent (cache included) *)
Theorem match_equiv rt1 rt2 m path : rt_equiv rt1 rt2 ->
  fst (match_ rt1 m path) = fst (match_ rt2 m path) /\
  rt_equiv (snd (match_ rt1 m path)) (snd (match_ rt2 m path)).
Proof.
  intros H. pose proof (dyn_equiv rt1 rt2 m path H) as Hd. pose proof H as (Ho & _ & Hst & _ & _ & _ & Hca & _).
  unfold match_. rewrite Hst, Ho, Hca, Hd.
  destruct (assoc (m ++ path) (stable rt2)) as [rid|]; [split; [reflexivity|exact H]|].
  destruct (if o_caching (ropts rt2) then aget (nat * params) (cache rt2) (m ++ path) else (cache rt2, None)) as [c1 hit].
  destruct hit as [[rid ps]|]; [split; [reflexivity|apply set_cache_equiv; exact H]|].
  destruct (dyn_match rt2 m path) as [|rid [ps|]| |]; (split; [reflexivity|apply set_cache_equiv; exact H]).
Qed.

Corollary match_equiv_pair rt1 rt2 m path : rt_equiv rt1 rt2 ->
  exists r rt1' rt2', match_ rt1 m path = (r, rt1') /\ match_ rt2 m path = (r, rt2') /\ rt_equiv rt1' rt2'.
Proof.
  intros H. destruct (match_equiv rt1 rt2 m path H) as [E1 E2].
  destruct (match_ rt1 m path) as [r1 rt1'], (match_ rt2 m path) as [r2 rt2']. cbn [fst snd] in *. subst r2. exists r1, rt1', rt2'. auto.
Qed.

Lemma probe_equiv m path : forall ms rt1 rt2 acc, rt_equiv rt1 rt2 ->
  fst (probe_methods rt1 ms m path acc) = fst (probe_methods rt2 ms m path acc) /\
  rt_equiv (snd (probe_methods rt1 ms m path acc)) (snd (probe_methods rt2 ms m path acc)).
Proof.
  induction ms as [|m' rest IH]; intros rt1 rt2 acc H; cbn [probe_methods].
  - split; [reflexivity|exact H].
  - destruct (str_eqb m' m); [apply IH; exact H|].
    destruct (match_equiv_pair rt1 rt2 m' path H) as (r & rt1' & rt2' & E1 & E2 & H'). rewrite E1, E2.
    destruct r as [|rid ps| |]; try (apply IH; exact H'); (split; [reflexivity|exact H']).
Qed.

Theorem quick_gen_equiv fixed rt1 rt2 m p : rt_equiv rt1 rt2 ->
  fst (quick_match_gen fixed rt1 m p) = fst (quick_match_gen fixed rt2 m p) /\
  rt_equiv (snd (quick_match_gen fixed rt1 m p)) (snd (quick_match_gen fixed rt2 m p)).
Proof.
  intros H. pose proof H as (Ho & _). unfold quick_match_gen. cbv zeta. rewrite Ho.
  destruct (if nil_b (o_intercept (ropts rt2)) then format_path (o_strict (ropts rt2)) p
            else if fixed then format_path (o_strict (ropts rt2)) (o_intercept (ropts rt2))
                 else Ok (o_intercept (ropts rt2))) as [path|]; [|split; [reflexivity|exact H]].
  destruct (match_equiv_pair rt1 rt2 m path H) as (r & rt1a & rt2a & E1 & E2 & Ha). rewrite E1, E2.
  destruct r as [|rid ps| |]; try (split; [reflexivity|exact Ha]).
  assert (H2 : exists r2 rt1b rt2b,
            (if str_eqb m HEAD then match_ rt1a GET path else (LNone, rt1a)) = (r2, rt1b) /\
            (if str_eqb m HEAD then match_ rt2a GET path else (LNone, rt2a)) = (r2, rt2b) /\ rt_equiv rt1b rt2b).
  { destruct (str_eqb m HEAD); [apply match_equiv_pair; exact Ha|]. exists LNone, rt1a, rt2a. auto. }
  destruct H2 as (r2 & rt1b & rt2b & F1 & F2 & Hb). rewrite F1, F2.
  destruct r2 as [|rid ps| |]; try (split; [reflexivity|exact Hb]).
  pose proof Hb as (_ & _ & Hst & _). rewrite Hst.
  destruct (if o_fallback (ropts rt2) then assoc (m ++ fallback_suffix) (stable rt2b) else None) as [rid|];
    [split; [reflexivity|exact Hb]|].
  destruct (o_na (ropts rt2)); [|split; [reflexivity|exact Hb]].
  destruct (probe_equiv m path any_methods rt1b rt2b [] Hb) as [P1 P2].
  destruct (probe_methods rt1b any_methods m path []) as [q1 rt1c], (probe_methods rt2b any_methods m path []) as [q2 rt2c].
  cbn [fst snd] in P1, P2. subst q2.
  destruct q1 as [[[|a al]|]|]; (split; [reflexivity|exact P2]).
Qed.

Theorem quick_equiv rt1 rt2 m p : rt_equiv rt1 rt2 ->
  fst (quick_match rt1 m p) = fst (quick_match rt2 m p) /\
  rt_equiv (snd (quick_match rt1 m p)) (snd (quick_match rt2 m p)).
Proof. apply quick_gen_equiv. Qed.

Corollary router_match_equiv rt1 rt2 m p : rt_equiv rt1 rt2 ->
  fst (router_match rt1 m p) = fst (router_match rt2 m p) /\
  rt_equiv (snd (router_match rt1 m p)) (snd (router_match rt2 m p)).
Proof. apply quick_equiv. Qed.

(* ================================================================================================ *)
(* 4. registration                                                                                    *)
(* ================================================================================================ *)

Lemma route_of_methods sr : rt_methods (route_of sr) = s_methods sr.
Proof. unfold route_of. destruct (s_pat sr) as [p|]; [destruct (start_and_first (pat_prefix p))|]; reflexivity. Qed.
Lemma route_of_path sr : rt_path (route_of sr) = s_path sr.
Proof. unfold route_of. destruct (s_pat sr) as [p|]; [destruct (start_and_first (pat_prefix p))|]; reflexivity. Qed.
Lemma route_of_name sr : rt_name (route_of sr) = [].
Proof. unfold route_of. destruct (s_pat sr) as [p|]; [destruct (start_and_first (pat_prefix p))|]; reflexivity. Qed.

Lemma contains_in c x : In c x -> contains_ch c x = true.
Proof.
  unfold contains_ch. induction x as [|y x IH]; [contradiction|]. cbn [index_of In].
  destruct (N.eqb_spec y c) as [E|NE]; [reflexivity|]. intros [E|Hin]; [contradiction|].
  specialize (IH Hin). destruct (index_of c x); [reflexivity|discriminate].
Qed.

Lemma in_show_items it its c :
  In it its -> In c (match it with PChr c' => [c'] | PVar n e => var_text n e end) -> In c (show_items its).
Proof.
  intros Hit Hc. unfold show_items, showg. apply in_flat_map. exists it. split; [exact Hit|].
  destruct it; exact Hc.
Qed.

(* a printable pattern text is not a fixed path: it has a "{" or a "[" *)
Lemma show_ppat_not_fixed p : printable p = true -> is_fixed_path (show_ppat p) = false.
Proof.
  intros H. destruct (printable_sound p H) as (_ & Hdyn & _). unfold is_fixed_path, show_ppat.
  destruct Hdyn as [Hv|Ho].
  - rewrite <- vars_flat in Hv. destruct (vars (flat p)) as [|[n e] vs] eqn:Ev; [congruence|].
    assert (Hin : In (PVar n e) (flat p)) by (apply vars_in; rewrite Ev; left; reflexivity).
    rewrite (contains_in lbrace); [reflexivity|]. eapply in_show_items; [exact Hin|]. left. reflexivity.
  - destruct (pp_opts p) as [|l ls] eqn:Eo; [congruence|].
    assert (Hin : In (PChr lbrack) (flat p)).
    { unfold flat. rewrite Eo. apply in_or_app. right. apply in_or_app. left. left. reflexivity. }
    rewrite (contains_in lbrack); [apply andb_false_r|]. eapply in_show_items; [exact Hin|]. left. reflexivity.
Qed.

Lemma Forall2_snoc {A} (R : A -> A -> Prop) l1 l2 a b : Forall2 R l1 l2 -> R a b -> Forall2 R (l1 ++ [a]) (l2 ++ [b]).
Proof. intros H Hab. apply Forall2_app; [exact H|]. constructor; [exact Hab|constructor]. Qed.

(* one registration: the string-level step succeeds and mirrors the grammar-level insertion *)
Theorem reg_route_equiv rt1 rt2 e : rt_equiv rt1 rt2 -> wf_entry e ->
  exists rt', reg_route rt1 (entry_rdef e) = Ok rt' /\
              rt_equiv rt' (insert_route rt2 (route_of (entry_sroute e))).
Proof.
  intros (Ho & Hc & Hst & Hrg & Hir & Hnm & Hca & Hrs) Hwf.
  destruct (wf_entry_methods e Hwf) as (_ & _ & _ & Hgi).
  pose proof (Forall2_len _ _ _ Hrs) as Hlen.
  unfold reg_route. cbn [entry_rdef df_methods df_path df_nil_handler df_name]. rewrite Hgi. cbn [negb].
  pose proof (route_of_methods (entry_sroute e)) as HRm. cbn [entry_sroute s_methods] in HRm.
  pose proof (route_of_path (entry_sroute e)) as HRp. cbn [entry_sroute s_path] in HRp.
  pose proof (route_of_name (entry_sroute e)) as HRn.
  unfold wf_entry, wf_entryb in Hwf. apply andb_true_iff in Hwf. destruct Hwf as [_ Hwf].
  destruct e as [ms path|ms p]; cbn [entry_methods entry_path] in *.
  - apply andb_true_iff in Hwf. destruct Hwf as [Hfix _]. rewrite Hfix.
    eexists. split; [reflexivity|].
    unfold insert_route, route_of. cbn [entry_sroute entry_pat s_pat s_methods s_path rt_kind rt_methods rt_path rt_name].
    unfold rt_equiv, set_tables. cbn [ropts counter routes stable regular irregular named cache].
    rewrite Hlen, Hc, Hst. repeat split; try assumption.
    apply Forall2_snoc; [exact Hrs|]. apply route_equiv_refl.
  - rewrite (show_ppat_not_fixed p Hwf).
    destruct (roundtrip_printable p ms Hwf) as (d & r & _ & Hd & Hre & Hk & _ & Hm).
    change {| s_methods := ms; s_path := show_ppat p; s_pat := Some (to_pat p) |} with (entry_sroute (EDyn ms p)) in Hk.
    rewrite Hd. cbn [bind]. rewrite Hre. cbn [bind].
    set (R := route_of (entry_sroute (EDyn ms p))) in *.
    unfold insert_route. rewrite Hk, HRm, HRn.
    assert (HR : route_equiv
                   {| rt_methods := ms; rt_path := show_ppat p;
                      rt_kind := KDyn (d_start d) (d_first d) (CRx r (List.length (d_names d))) (d_names d);
                      rt_name := [] |} R).
    { unfold route_equiv. cbn [rt_methods rt_path rt_name rt_kind]. rewrite HRm, HRp, HRn, Hk. cbn [kind_equiv].
      repeat split. exact Hm. }
    destruct (d_first d) as [|c f]; (eexists; split; [reflexivity|]);
      unfold rt_equiv, set_tables; cbn [ropts counter routes stable regular irregular named cache];
      rewrite Hlen, Hc, ?Hrg, ?Hir; repeat split; try assumption; apply Forall2_snoc; assumption.
Qed.

Lemma reg_routes_Ok_cons rt d ds : reg_routes rt (d :: ds) = bind (reg_route rt d) (fun r => reg_routes r ds).
Proof.
  unfold reg_routes. cbn [fold_left bind]. destruct (reg_route rt d) as [r|]; [reflexivity|].
  cbn [bind]. induction ds as [|d' ds IH]; [reflexivity|]. cbn [fold_left bind]. exact IH.
Qed.

Lemma reg_routes_equiv_gen es : forall rt1 rt2, rt_equiv rt1 rt2 -> Forall wf_entry es ->
  exists rt, reg_routes rt1 (map entry_rdef es) = Ok rt /\
             rt_equiv rt (fold_left insert_route (map route_of (map entry_sroute es)) rt2).
Proof.
  induction es as [|e es IH]; intros rt1 rt2 H WF; cbn [map fold_left].
  - exists rt1. split; [reflexivity|exact H].
  - inversion WF as [|? ? We Wes]; subst.
    destruct (reg_route_equiv rt1 rt2 e H We) as (rt' & E & H').
    rewrite reg_routes_Ok_cons, E. cbn [bind]. apply IH; assumption.
Qed.

Theorem reg_routes_equiv o es : Forall wf_entry es ->
  exists rt, reg_routes (new_router o) (map entry_rdef es) = Ok rt /\
             rt_equiv rt (build o (map entry_sroute es)).
Proof. intros WF. apply reg_routes_equiv_gen; [apply rt_equiv_refl|exact WF]. Qed.

(* ================================================================================================ *)
(* 5. the grammar-level side conditions follow from wf_entry                                          *)
(* ================================================================================================ *)

Lemma no_grp_sre e : no_grp (sre_rx e) = true.
Proof.
  induction e as [|[a o] e IH]; [reflexivity|]. unfold sre_rx. cbn [fold_right]. fold (sre_rx e).
  cbn [no_grp]. rewrite IH, andb_true_r. unfold piece_rx. cbn [fst snd].
  destruct o, a; reflexivity.
Qed.

Lemma in_cons_lit it c its : In it (cons_lit c its) -> (exists x, it = Lit x) \/ In it its.
Proof.
  destruct its as [|[x|n re] its]; cbn [cons_lit]; intros [H|H]; subst; eauto.
  right. right. exact H.
Qed.

Lemma to_items_var l n re : In (Var n re) (to_items l) -> exists e, re = sre_rx (vsre n e).
Proof.
  induction l as [|[c|n' e'] l IH]; cbn [to_items]; intros H.
  - contradiction.
  - apply in_cons_lit in H. destruct H as [[x Hx]|H]; [discriminate|apply IH; exact H].
  - destruct H as [H|H]; [inversion H; subst; eauto|apply IH; exact H].
Qed.

Lemma items_ok_to_items l : items_ok (to_items l).
Proof. intros n re H. apply to_items_var in H. destruct H as [e ->]. apply no_grp_sre. Qed.

Lemma pat_ok_to_pat p : pat_ok (to_pat p).
Proof.
  split; [apply items_ok_to_items|]. cbn [to_pat p_opts]. apply Forall_forall. intros its Hin.
  apply in_map_iff in Hin. destruct Hin as (l & <- & _). apply items_ok_to_items.
Qed.

Lemma starts_slash_cons its : starts_slash its = true -> exists r, its = PChr slash :: r.
Proof.
  destruct its as [|[c|n e] r]; try discriminate. cbn [starts_slash]. intros H. apply N.eqb_eq in H. subst c. eauto.
Qed.

Lemma pat_prefix_rooted p : starts_slash (pp_req p) = true -> exists t, pat_prefix (to_pat p) = slash :: t.
Proof.
  intros H. rewrite pat_prefix_to_pat. destruct (starts_slash_cons _ H) as [r ->]. cbn [litpre]. eauto.
Qed.

Lemma show_ppat_rooted p : starts_slash (pp_req p) = true -> rooted (show_ppat p).
Proof.
  intros H. unfold show_ppat, flat. destruct (starts_slash_cons _ H) as [r ->]. reflexivity.
Qed.

Theorem wf_entry_sroute e : wf_entry e -> wf_sroute (entry_sroute e).
Proof.
  intros Hwf. destruct (wf_entry_methods e Hwf) as (_ & Hany & Hnd & _).
  unfold wf_entry, wf_entryb in Hwf. apply andb_true_iff in Hwf. destruct Hwf as [_ Hwf].
  constructor; cbn [entry_sroute s_methods s_path s_pat].
  - intros m Hm. apply no_slash_any. apply Hany. exact Hm.
  - exact Hnd.
  - destruct e as [ms path|ms p]; cbn [entry_path].
    + apply andb_true_iff in Hwf. apply rootedb_rooted. apply Hwf.
    + destruct (printable_sound p Hwf) as ([Hs _ _ _] & _). apply show_ppat_rooted. exact Hs.
  - intros q Hq. destruct e as [ms path|ms p]; cbn [entry_pat] in Hq; [discriminate|]. inversion Hq; subst q.
    destruct (printable_sound p Hwf) as ([Hs _ _ _] & _).
    split; [apply pat_ok_to_pat|apply pat_prefix_rooted; exact Hs].
Qed.

Lemma wf_entries_sroutes es : Forall wf_entry es -> Forall wf_sroute (map entry_sroute es).
Proof. intros H. apply Forall_map. eapply Forall_impl; [|exact H]. apply wf_entry_sroute. Qed.

(* ================================================================================================ *)
(* 6. the payoff                                                                                      *)
(* ================================================================================================ *)

(* every lookup in the string-level router gives the answer (route id and parameters) of the grammar-level router;
   no assumption on the options, the method or the path *)
Theorem string_level_lookup o es rt m path : Forall wf_entry es ->
  reg_routes (new_router o) (map entry_rdef es) = Ok rt ->
  fst (match_ rt m path) = fst (match_ (build o (map entry_sroute es)) m path) /\
  rt_equiv (snd (match_ rt m path)) (snd (match_ (build o (map entry_sroute es)) m path)).
Proof.
  intros WF Hreg. destruct (reg_routes_equiv o es WF) as (rt' & E & H). rewrite Hreg in E. inversion E; subst rt'.
  apply match_equiv. exact H.
Qed.

Theorem string_level_quick o es rt m p : Forall wf_entry es ->
  reg_routes (new_router o) (map entry_rdef es) = Ok rt ->
  fst (quick_match rt m p) = fst (quick_match (build o (map entry_sroute es)) m p) /\
  rt_equiv (snd (quick_match rt m p)) (snd (quick_match (build o (map entry_sroute es)) m p)).
Proof.
  intros WF Hreg. destruct (reg_routes_equiv o es WF) as (rt' & E & H). rewrite Hreg in E. inversion E; subst rt'.
  apply quick_equiv. exact H.
Qed.

(* the string-level router selects by the documented rule *)
Theorem string_level_selection o es rt m path : o_caching o = false -> Forall wf_entry es ->
  reg_routes (new_router o) (map entry_rdef es) = Ok rt -> no_slash m -> rooted path ->
  sel (fst (match_ rt m path)) = spec_select (map entry_sroute es) m path.
Proof.
  intros Hc WF Hreg Hm Hp. destruct (string_level_lookup o es rt m path WF Hreg) as [E _]. rewrite E.
  apply lookup_is_spec; auto. apply wf_entries_sroutes. exact WF.
Qed.

(* ... and its QuickMatch is the documented fallback ladder *)
Theorem string_level_ladder o es rt m p path :
  o_caching o = false -> o_intercept o = [] -> Forall wf_entry es ->
  reg_routes (new_router o) (map entry_rdef es) = Ok rt -> no_slash m ->
  format_path (o_strict o) p = Ok path ->
  qsel (fst (quick_match rt m p)) = ladder o (map entry_sroute es) m path.
Proof.
  intros Hc Hi WF Hreg Hm Hfp. destruct (string_level_quick o es rt m p WF Hreg) as [E _]. rewrite E.
  apply quick_match_is_ladder; auto. apply wf_entries_sroutes. exact WF.
Qed.

(* ================================================================================================ *)
(* 7. a concrete table                                                                                *)
(* ================================================================================================ *)
Module Examples.
Import String.
Definition p_users : ppat :=                                      (* /users/{id:\d+} *)
  {| pp_req := map PChr (s "/users/") ++ [PVar (s "id") (VRe [(ADigit, OPlus)])]; pp_opts := [] |}.
Definition p_blog : ppat :=                                       (* /blog/{slug}[/{page}] *)
  {| pp_req := map PChr (s "/blog/") ++ [PVar (s "slug") VDef];
     pp_opts := [map PChr (s "/") ++ [PVar (s "page") VDef]] |}.
Definition ex_table : list entry :=
  [EStatic [GET] (s "/about"); EDyn [GET; POST] p_users; EDyn [GET] p_blog].

Example ex_texts : map entry_path ex_table = [s "/about"; s "/users/{id:\d+}"; s "/blog/{slug}[/{page}]"].
Proof. vm_compute. reflexivity. Qed.
Example ex_wf : Forall wf_entry ex_table.
Proof. repeat constructor. Qed.

Definition ex_rt : router :=
  match reg_routes (new_router default_opts) (map entry_rdef ex_table) with Ok rt => rt | Panic => new_router default_opts end.
Example ex_reg : reg_routes (new_router default_opts) (map entry_rdef ex_table) = Ok ex_rt.
Proof. vm_compute. reflexivity. Qed.

(* the theorem instantiated *)
Example ex_selection m path : no_slash m -> rooted path ->
  sel (fst (match_ ex_rt m path)) = spec_select (map entry_sroute ex_table) m path.
Proof. apply (string_level_selection default_opts ex_table ex_rt m path eq_refl ex_wf ex_reg). Qed.

(* ... and both sides computed *)
Example ex_users :
  fst (match_ ex_rt POST (s "/users/42")) = LHit 1 (Some [(s "id", s "42")]) /\
  spec_select (map entry_sroute ex_table) POST (s "/users/42") = Some 1%nat.
Proof. vm_compute. split; reflexivity. Qed.
Example ex_blog :
  fst (match_ ex_rt GET (s "/blog/hello/3")) = LHit 2 (Some [(s "slug", s "hello"); (s "page", s "3")]) /\
  spec_select (map entry_sroute ex_table) GET (s "/blog/hello/3") = Some 2%nat.
Proof. vm_compute. split; reflexivity. Qed.
Example ex_blog_short :
  fst (match_ ex_rt GET (s "/blog/hello")) = LHit 2 (Some [(s "slug", s "hello"); (s "page", [])]) /\
  spec_select (map entry_sroute ex_table) GET (s "/blog/hello") = Some 2%nat.
Proof. vm_compute. split; reflexivity. Qed.
Example ex_about :
  fst (match_ ex_rt GET (s "/about")) = LHit 0 None /\
  spec_select (map entry_sroute ex_table) GET (s "/about") = Some 0%nat.
Proof. vm_compute. split; reflexivity. Qed.
Example ex_miss :
  fst (match_ ex_rt GET (s "/users/x1")) = LNone /\ fst (match_ ex_rt POST (s "/about")) = LNone /\
  spec_select (map entry_sroute ex_table) GET (s "/users/x1") = None /\
  spec_select (map entry_sroute ex_table) POST (s "/about") = None.
Proof. vm_compute. repeat split; reflexivity. Qed.
(* the grammar-level router gives the very same answers *)
Example ex_build_same :
  map (fun mp => fst (match_ ex_rt (fst mp) (snd mp))) [(POST, s "/users/42"); (GET, s "/blog/hello/3"); (GET, s "/nothing")] =
  map (fun mp => fst (match_ (build default_opts (map entry_sroute ex_table)) (fst mp) (snd mp)))
      [(POST, s "/users/42"); (GET, s "/blog/hello/3"); (GET, s "/nothing")].
Proof. vm_compute. reflexivity. Qed.
End Examples.

Print Assumptions match_equiv.
Print Assumptions quick_equiv.
Print Assumptions reg_route_equiv.
Print Assumptions reg_routes_equiv.
Print Assumptions wf_entry_sroute.
Print Assumptions string_level_lookup.
Print Assumptions string_level_quick.
Print Assumptions string_level_selection.
Print Assumptions string_level_ladder.
Print Assumptions Examples.ex_selection.
Print Assumptions Examples.ex_users.
