(* Options.v — the route-cache container exists whenever caching is on.
   Go (rux.go, router.go): the options EnableCaching, MaxNumCaches(n), CachingWithNum(n) are functions on a pointer to the Router. They are applied by
   New(opts...) / WithOptions(opts...) (apply each, then initCachedRoutes) or by calling them with the router, opt(r).
   Before the repair "the caching options create the route cache container themselves" the options only set the fields
   enableCaching / maxNumCaches and the container was created by WithOptions (after its batch) and by AddRoute
   (if enableCaching && cachedRoutes == nil) only; Router.match dereferences the container whenever enableCaching is set.
   After the repair each of the three options also calls initCachedRoutes.
   Not modelled: WithOptions panics once a route was added (the model allows these histories too: the theorems quantify over
   more histories than the code can run); the contents of the container (a fresh container is empty: CacheFacts). *)
From Rux Require Import Base.

Record ostate := { en : bool; maxn : nat; cont : option nat }.     (* cont = capacity of the container, None = nil *)
Definition init : ostate := {| en := false; maxn := 1000; cont := None |}.

Inductive opt := OEnable | OMaxNum (n : nat) | OWithNum (n : nat) | OOther.   (* OOther = any option that is not a caching option *)

(* initCachedRoutes: if r.enableCaching { r.cachedRoutes = NewCachedRoutes(int(r.maxNumCaches)) } *)
Definition init_cached (s : ostate) : ostate :=
  if en s then {| en := en s; maxn := maxn s; cont := Some (maxn s) |} else s.

(* the fields an option sets *)
Definition set_fields (o : opt) (s : ostate) : ostate :=
  match o with
  | OEnable => {| en := true; maxn := maxn s; cont := cont s |}
  | OMaxNum n => {| en := en s; maxn := n; cont := cont s |}
  | OWithNum n => {| en := true; maxn := n; cont := cont s |}
  | OOther => s
  end.

(* fixed = true: the code after the repair; fixed = false: before *)
Definition apply_opt (fixed : bool) (o : opt) (s : ostate) : ostate :=
  match o with
  | OOther => s
  | _ => if fixed then init_cached (set_fields o s) else set_fields o s
  end.

Definition apply_opts (fixed : bool) (os : list opt) (s : ostate) : ostate :=
  fold_left (fun s o => apply_opt fixed o s) os s.

(* AddRoute: if r.enableCaching && r.cachedRoutes == nil { r.cachedRoutes = NewCachedRoutes(int(r.maxNumCaches)) } *)
Definition add_route (s : ostate) : ostate :=
  if en s then match cont s with None => {| en := en s; maxn := maxn s; cont := Some (maxn s) |} | Some _ => s end else s.

Inductive step := SDirect (o : opt) | SBatch (os : list opt) (* New / WithOptions *) | SAddRoute.

Definition do_step (fixed : bool) (st : step) (s : ostate) : ostate :=
  match st with
  | SDirect o => apply_opt fixed o s
  | SBatch os => init_cached (apply_opts fixed os s)
  | SAddRoute => add_route s
  end.

Definition run (fixed : bool) (steps : list step) (s : ostate) : ostate :=
  fold_left (fun s st => do_step fixed st s) steps s.

(* Router.match does r.cachedRoutes.Get(..) / .Set(..) when r.enableCaching: a nil container panics *)
Definition lookup_ok (s : ostate) : Prop := en s = true -> cont s <> None.
(* the container has the capacity that was configured last *)
Definition cap_ok (s : ostate) : Prop := forall c, cont s = Some c -> en s = true -> c = maxn s.

(* ---------- the repaired code ---------- *)
(* both properties at once: while caching is on, the container is exactly NewCachedRoutes(maxNumCaches) *)
Definition good (s : ostate) : Prop := en s = true -> cont s = Some (maxn s).

Lemma good_lookup_ok s : good s -> lookup_ok s.
Proof. intros Hg He. rewrite (Hg He). discriminate. Qed.
Lemma good_cap_ok s : good s -> cap_ok s.
Proof. intros Hg c Hc He. rewrite (Hg He) in Hc. injection Hc as Hc. auto. Qed.

Lemma good_init : good init.
Proof. intros He. cbn [init en] in He. discriminate. Qed.

Lemma init_cached_good s : good (init_cached s).
Proof.
  unfold good, init_cached. destruct (en s) eqn:He; cbn [en cont maxn]; auto.
  rewrite He. discriminate.
Qed.

Lemma apply_opt_good o s : good s -> good (apply_opt true o s).
Proof.
  intros Hg. destruct o; cbn [apply_opt]; auto using init_cached_good.
Qed.

Lemma add_route_good s : good s -> good (add_route s).
Proof.
  intros Hg. unfold add_route. destruct (en s) eqn:He; auto.
  destruct (cont s) eqn:Hc; auto.
  intros _. reflexivity.
Qed.

Lemma do_step_good st s : good s -> good (do_step true st s).
Proof.
  intros Hg. destruct st as [o|os|]; cbn [do_step].
  - apply apply_opt_good; auto.
  - apply init_cached_good.
  - apply add_route_good; auto.
Qed.

Lemma run_good steps : forall s, good s -> good (run true steps s).
Proof.
  induction steps as [|st steps IH]; intros s Hg; cbn [run fold_left]; auto.
  apply IH. apply do_step_good; auto.
Qed.

(* whatever way the router is configured - options in batches, called directly, before or after routes are added, in any order -
   a lookup finds a container, and it has the capacity configured last *)
Theorem options_container_fixed : forall steps,
  lookup_ok (run true steps init) /\ cap_ok (run true steps init).
Proof.
  intros steps. pose proof (run_good steps init good_init) as Hg.
  split; [apply good_lookup_ok|apply good_cap_ok]; auto.
Qed.

(* caching is never switched off again, and the capacity is the argument of the last MaxNumCaches / CachingWithNum *)
Definition last_num (o : opt) (d : nat) : nat := match o with OMaxNum n | OWithNum n => n | _ => d end.
Definition step_opts (st : step) : list opt :=
  match st with SDirect o => [o] | SBatch os => os | SAddRoute => [] end.
Definition configured_num (steps : list step) : nat :=
  fold_left (fun d o => last_num o d) (flat_map step_opts steps) 1000.

Lemma init_cached_maxn s : maxn (init_cached s) = maxn s.
Proof. unfold init_cached. destruct (en s); auto. Qed.
Lemma apply_opt_maxn fixed o s : maxn (apply_opt fixed o s) = last_num o (maxn s).
Proof.
  destruct o, fixed; cbn [apply_opt last_num]; auto; rewrite ?init_cached_maxn; reflexivity.
Qed.
Lemma add_route_maxn s : maxn (add_route s) = maxn s.
Proof. unfold add_route. destruct (en s); auto. destruct (cont s); auto. Qed.
Lemma apply_opts_maxn fixed os : forall s,
  maxn (apply_opts fixed os s) = fold_left (fun d o => last_num o d) os (maxn s).
Proof.
  induction os as [|o os IH]; intros s; cbn [apply_opts fold_left]; auto.
  fold (apply_opts fixed os (apply_opt fixed o s)). rewrite IH, apply_opt_maxn. reflexivity.
Qed.
Lemma run_maxn fixed steps : forall s,
  maxn (run fixed steps s) = fold_left (fun d o => last_num o d) (flat_map step_opts steps) (maxn s).
Proof.
  induction steps as [|st steps IH]; intros s; cbn [run fold_left flat_map]; auto.
  fold (run fixed steps (do_step fixed st s)). rewrite IH, fold_left_app. f_equal.
  destruct st as [o|os|]; cbn [do_step step_opts fold_left].
  - apply apply_opt_maxn.
  - rewrite init_cached_maxn. apply apply_opts_maxn.
  - apply add_route_maxn.
Qed.

Theorem options_capacity_fixed : forall steps,
  en (run true steps init) = true -> cont (run true steps init) = Some (configured_num steps).
Proof.
  intros steps He. rewrite (run_good steps init good_init He). f_equal.
  unfold configured_num. rewrite run_maxn. reflexivity.
Qed.

(* ---------- the code before the repair ---------- *)
Theorem options_container_legacy_refuted : exists steps, ~ lookup_ok (run false steps init).
Proof.
  exists [SDirect OEnable]. intros H. vm_compute in H. apply H; reflexivity.
Qed.

(* the capacity too: MaxNumCaches called with the router after New(EnableCaching) left the container of 1000 entries *)
Theorem options_capacity_legacy_refuted : exists steps, ~ cap_ok (run false steps init).
Proof.
  exists [SBatch [OEnable]; SDirect (OMaxNum 5)]. intros H.
  specialize (H 1000 eq_refl eq_refl). vm_compute in H. discriminate.
Qed.

(* configured through New / WithOptions only, the code before the repair was fine ... *)
Lemma run_batches_good fixed batches : forall s, good s -> good (run fixed (map SBatch batches) s).
Proof.
  induction batches as [|os batches IH]; intros s Hg; cbn [map run fold_left]; auto.
  apply IH. cbn [do_step]. apply init_cached_good.
Qed.

Theorem options_container_legacy_batches : forall batches,
  lookup_ok (run false (map SBatch batches) init) /\ cap_ok (run false (map SBatch batches) init).
Proof.
  intros batches. pose proof (run_batches_good false batches init good_init) as Hg.
  split; [apply good_lookup_ok|apply good_cap_ok]; auto.
Qed.

(* ... also with routes added afterwards (AddRoute keeps a container, and creates a missing one) *)
Lemma add_route_lookup_ok s : lookup_ok (add_route s).
Proof.
  unfold lookup_ok, add_route. destruct (en s) eqn:He; [|rewrite He; discriminate].
  destruct (cont s) eqn:Hc; cbn [cont]; [rewrite Hc|]; discriminate.
Qed.

Theorem options_container_legacy_batches_routes : forall batches n,
  lookup_ok (run false (map SBatch batches ++ repeat SAddRoute n) init).
Proof.
  intros batches n. unfold run. rewrite fold_left_app. fold (run false (map SBatch batches) init).
  pose proof (good_lookup_ok _ (run_batches_good false batches init good_init)) as H0.
  generalize dependent (run false (map SBatch batches) init). induction n as [|n IH]; intros s Hs; cbn [repeat fold_left]; auto.
  apply IH. cbn [do_step]. apply add_route_lookup_ok.
Qed.

Print Assumptions options_container_fixed.
Print Assumptions options_capacity_fixed.
Print Assumptions options_container_legacy_refuted.
Print Assumptions options_capacity_legacy_refuted.
Print Assumptions options_container_legacy_batches.
Print Assumptions options_container_legacy_batches_routes.
