(* Build.v — BuildRequestURL.Build / Route.ToURL (extends.go, route.go): placeholder substitution in the
   registered path, query/parameter split of the arguments, and the named-route table. *)
From Rux Require Import Base Str Consts Rx RxParse Pattern Pat.

(* strings.NewReplacer(old, new).Replace(s): all non-overlapping occurrences, left to right *)
Fixpoint replace_all (fuel : nat) (old new s : str) : str :=
  match fuel with
  | O => s
  | S f =>
    match s with
    | [] => []
    | c :: r => match old with
                | [] => s
                | _ => if has_prefix old s then new ++ replace_all f old new (skipn (List.length old) s)
                       else c :: replace_all f old new r
                end
    end
  end.
Definition replace1 (old new s : str) : str := replace_all (S (List.length s)) old new s.

(* the placeholder name Build looks up for a variable text "{n}" / "{n:regex}" *)
Definition placeholder (vs : str) : str :=
  let nv := removelast (tl vs) in
  match split_colon nv with
  | Some (n0, _) => braces (trim_space n0)
  | None => vs
  end.

Fixpoint lookup (k : str) (l : list (str * str)) : str :=     (* goutil.String(b.params[name]) : "" when absent *)
  match l with [] => [] | (k', v) :: r => if str_eqb k k' then v else lookup k r end.

(* Build: for paramRegex, name := range varParams (a Go map: any order) { path = Replace(paramRegex -> params[name]) } *)
Definition build_path (path : str) (params : list (str * str)) (order : list str) : str :=
  fold_left (fun p vs => replace1 vs (lookup (placeholder vs) params) p) order path.
(* the distinct variable texts of the path, in scan order (the keys of varParams) *)
Fixpoint dedup (l : list str) : list str :=
  match l with [] => [] | x :: r => if mem x r then dedup r else x :: dedup r end.
Definition var_texts (path : str) : list str := dedup (all_vars path).

(* argument split: keys without braces become query parameters, the others placeholders *)
Definition has_brace (k : str) : bool := contains_ch lbrace k || contains_ch rbrace k.
Definition split_args (args : list (str * str)) : list (str * str) * list (str * str) :=
  (filter (fun kv => has_brace (fst kv)) args, filter (fun kv => negb (has_brace (fst kv))) args).

(* ---------- specification on the grammar-level pattern ---------- *)
(* substituting values for the variables of an item list, in order *)
Fixpoint subst_items (its : list item) (vs : list str) : str :=
  match its with
  | [] => []
  | Lit s :: r => s ++ subst_items r vs
  | Var _ _ :: r => match vs with v :: vs' => v ++ subst_items r vs' | [] => subst_items r [] end
  end.
