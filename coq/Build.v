(* Build.v — BuildRequestURL.Build / Route.ToURL (extends.go, route.go): placeholder substitution in the
   registered path, query/parameter split of the arguments, and the named-route table. *)
From Rux Require Import Base Str Consts Rx RxParse Pattern Pat.

(* strings.NewReplacer(old, new).Replace(s): all non-overlapping occurrences, left to right *)
Fixpoint replace_all (fuel : nat) (old new s : str) : str :=
  match fuel with
  | O => s
  | S f =>
    match s with
    | [] => []
    | c :: r => match old with
                | [] => s
                | _ => if has_prefix old s then new ++ replace_all f old new (skipn (List.length old) s)
                       else c :: replace_all f old new r
                end
    end
  end.
Definition replace1 (old new s : str) : str := replace_all (S (List.length s)) old new s.

(* the placeholder name Build looks up for a variable text "{n}" / "{n:regex}" *)
Definition placeholder (vs : str) : str :=
  let nv := removelast (tl vs) in
  match split_colon nv with
  | Some (n0, _) => braces (trim_space n0)
  | None => vs
  end.

Fixpoint lookup (k : str) (l : list (str * str)) : str :=     (* goutil.String(b.params[name]) : "" when absent *)
  match l with [] => [] | (k', v) :: r => if str_eqb k k' then v else lookup k r end.

(* Build before repair F19: for paramRegex, name := range varParams (a Go map: any order) { path = Replace(paramRegex -> params[name]) }
   - one pass per variable, each scanning the values the earlier passes inserted *)
Definition build_path_legacy (path : str) (params : list (str * str)) (order : list str) : str :=
  fold_left (fun p vs => replace1 vs (lookup (placeholder vs) params) p) order path.
(* the distinct variable texts of the path (the keys of varParams) *)
Fixpoint dedup (l : list str) : list str :=
  match l with [] => [] | x :: r => if mem x r then dedup r else x :: dedup r end.
Definition var_texts_legacy (path : str) : list str := dedup (all_vars path).

(* strings.NewReplacer(old1, new1, old2, new2, ...).Replace(s): one left-to-right pass; at every position the first pair
   (in argument order) whose old text starts there is taken, its new text is emitted and NOT scanned again *)
Fixpoint first_match (pairs : list (str * str)) (s : str) : option (str * str) :=
  match pairs with
  | [] => None
  | (old, new) :: r => match old with
                       | [] => first_match r s
                       | _ => if has_prefix old s then Some (old, new) else first_match r s
                       end
  end.
Fixpoint replace_multi (fuel : nat) (pairs : list (str * str)) (s : str) : str :=
  match fuel with
  | O => s
  | S f =>
    match s with
    | [] => []
    | c :: r => match first_match pairs s with
                | Some (old, new) => new ++ replace_multi f pairs (skipn (List.length old) s)
                | None => c :: replace_multi f pairs r
                end
    end
  end.
(* the distinct variable texts in path order (first occurrences) *)
Fixpoint dedup_first (seen l : list str) : list str :=
  match l with [] => [] | x :: r => if mem x seen then dedup_first seen r else x :: dedup_first (x :: seen) r end.
Definition var_texts (path : str) : list str := dedup_first [] (all_vars path).
(* Build (after repair F19): all variables are replaced in one pass *)
Definition build_path (path : str) (params : list (str * str)) (order : list str) : str :=
  replace_multi (S (List.length path)) (map (fun vs => (vs, lookup (placeholder vs) params)) order) path.

(* argument split: keys without braces become query parameters, the others placeholders *)
Definition has_brace (k : str) : bool := contains_ch lbrace k || contains_ch rbrace k.
Definition split_args (args : list (str * str)) : list (str * str) * list (str * str) :=
  (filter (fun kv => has_brace (fst kv)) args, filter (fun kv => negb (has_brace (fst kv))) args).

(* ---------- specification on the grammar-level pattern ---------- *)
(* substituting values for the variables of an item list, in order *)
Fixpoint subst_items (its : list item) (vs : list str) : str :=
  match its with
  | [] => []
  | Lit s :: r => s ++ subst_items r vs
  | Var _ _ :: r => match vs with v :: vs' => v ++ subst_items r vs' | [] => subst_items r [] end
  end.
