(* CacheFacts.v — lemmas about the LRU spec and the refinement from the
   implementation-shaped cache (node list + hash index) to it. *)
From Rux Require Import Base BaseFacts Cache.

Section Facts.
Variable val : Type.
Notation alist := (alist val).
Notation icache := (icache val).
Notation node := (node val).

Definition ainv (cap : nat) (l : alist) := NoDup (akeys val l) /\ length l <= cap.

Lemma afind_none_notin k (l : alist) : afind val k l = None <-> ~ In k (akeys val l).
Proof.
  induction l as [|[k' v] l IH]; simpl; [tauto|].
  destruct (str_eqb_spec k k'); subst.
  - split; [discriminate|]. intros H; exfalso; apply H; auto.
  - rewrite IH. split; intros H; [intros [E|E]; [congruence|auto]|auto].
Qed.
Lemma afind_in k (l : alist) v : afind val k l = Some v -> In (k, v) l.
Proof.
  induction l as [|[k' v'] l IH]; simpl; [discriminate|].
  destruct (str_eqb_spec k k'); subst; intros H; [inversion H; auto|auto].
Qed.
Lemma in_aremove k (l : alist) x : In x (aremove val k l) -> In x l.
Proof. induction l as [|[k' v'] l IH]; simpl; auto. destruct (str_eqb k k'); simpl; auto. intros [H|H]; auto. Qed.
Lemma keys_aremove_subset k (l : alist) x : In x (akeys val (aremove val k l)) -> In x (akeys val l).
Proof.
  induction l as [|[k' v] l IH]; simpl; auto.
  destruct (str_eqb k k'); simpl; auto. intros [H|H]; auto.
Qed.
Lemma aremove_nodup k (l : alist) :
  NoDup (akeys val l) -> NoDup (akeys val (aremove val k l)) /\ ~ In k (akeys val (aremove val k l)).
Proof.
  induction l as [|[k' v] l IH]; simpl; intros ND.
  - split; [constructor|auto].
  - inversion ND as [|? ? Hn ND']; subst. destruct (str_eqb_spec k k'); subst.
    + split; auto.
    + destruct (IH ND') as [H1 H2]. simpl. split.
      * constructor; auto. intros H. apply Hn. eapply keys_aremove_subset; eauto.
      * intros [E|E]; [congruence|auto].
Qed.
Lemma aremove_length k (l : alist) v : afind val k l = Some v -> S (length (aremove val k l)) = length l.
Proof.
  induction l as [|[k' v'] l IH]; simpl; [discriminate|].
  destruct (str_eqb k k'); [reflexivity|]. intros H. simpl. rewrite IH; auto.
Qed.
Lemma aremove_notin k (l : alist) : afind val k l = None -> aremove val k l = l.
Proof.
  induction l as [|[k' v'] l IH]; simpl; auto.
  destruct (str_eqb k k'); [discriminate|]. intros H. rewrite IH; auto.
Qed.
Lemma keys_removelast (l : alist) : forall x, In x (akeys val (removelast l)) -> In x (akeys val l).
Proof.
  induction l as [|[k v] l IH]; simpl; auto.
  destruct l as [|p l']; simpl; [tauto|]. intros x [H|H]; auto. right. apply IH. auto.
Qed.
Lemma nodup_removelast (l : alist) : NoDup (akeys val l) -> NoDup (akeys val (removelast l)).
Proof.
  induction l as [|[k v] l IH]; simpl; auto.
  intros ND. inversion ND as [|? ? Hn ND']; subst.
  destruct l as [|p l']; [constructor|]. simpl. constructor.
  - intros H. apply Hn. apply (keys_removelast (p :: l')). auto.
  - apply IH. auto.
Qed.
Lemma length_removelast {A} (l : list A) : l <> [] -> S (length (removelast l)) = length l.
Proof.
  induction l as [|a l IH]; [congruence|]. intros _. destruct l; auto.
  simpl in *. rewrite IH; auto. discriminate.
Qed.
Lemma in_removelast {A} (l : list A) x : In x (removelast l) -> In x l.
Proof. induction l as [|a l IH]; simpl; auto. destruct l; simpl in *; [tauto|]. intros [H|H]; auto. Qed.

Theorem aset_inv cap (l : alist) k v : ainv cap l -> ainv cap (aset val cap l k v).
Proof.
  intros [ND LEN]. unfold aset. destruct (afind val k l) as [v0|] eqn:E.
  - destruct (aremove_nodup k l ND) as [H1 H2]. pose proof (aremove_length k l v0 E). split.
    + simpl. constructor; auto.
    + simpl. lia.
  - apply afind_none_notin in E. destruct (Nat.ltb_spec cap (length ((k, v) :: l))) as [H|H].
    + split.
      * apply nodup_removelast. simpl. constructor; auto.
      * pose proof (length_removelast ((k, v) :: l)) as HL. simpl in *.
        assert (HN: (k, v) :: l <> []) by discriminate. specialize (HL HN). lia.
    + split; [simpl; constructor; auto|auto].
Qed.
Theorem aget_inv cap (l : alist) k : ainv cap l -> ainv cap (fst (aget val l k)).
Proof.
  intros [ND LEN]. unfold aget. destruct (afind val k l) as [v0|] eqn:E; simpl; [|split; auto].
  destruct (aremove_nodup k l ND) as [H1 H2]. pose proof (aremove_length k l v0 E).
  split; simpl; [constructor; auto|lia].
Qed.
Theorem adel_inv cap (l : alist) k : ainv cap l -> ainv cap (fst (adel val l k)).
Proof.
  intros [ND LEN]. unfold adel. destruct (afind val k l) as [v0|] eqn:E; simpl; [|split; auto].
  destruct (aremove_nodup k l ND) as [H1 H2]. pose proof (aremove_length k l v0 E). split; auto. lia.
Qed.
Theorem astep_inv cap (l : alist) o : ainv cap l -> ainv cap (fst (astep val cap l o)).
Proof.
  intros I. destruct o as [k v|k|k|k|]; cbn [astep].
  - apply aset_inv; auto.
  - pose proof (aget_inv cap l k I). destruct (aget val l k); auto.
  - pose proof (aget_inv cap l k I). destruct (aget val l k); auto.
  - pose proof (adel_inv cap l k I). destruct (adel val l k); auto.
  - auto.
Qed.
Theorem astates_inv cap ops : forall l : alist, ainv cap l -> ainv cap (astates val cap l ops).
Proof.
  induction ops as [|o ops IH]; intros l I; cbn [astates]; auto.
  apply IH. apply astep_inv. auto.
Qed.
Lemma ainv_nil cap : ainv cap [].
Proof. split; simpl; [constructor|lia]. Qed.

(* ---------- the clauses of the property, on the spec ---------- *)
Theorem set_is_mru cap (l : alist) k v : 1 <= cap -> ainv cap l -> exists r, aset val cap l k v = (k, v) :: r.
Proof.
  intros Hc [ND LEN]. unfold aset. destruct (afind val k l); [eauto|].
  destruct (Nat.ltb_spec cap (length ((k, v) :: l))); [|eauto].
  destruct l as [|p l']; simpl in *; [lia|]. eauto.
Qed.
Theorem get_is_mru (l : alist) k v :
  afind val k l = Some v -> aget val l k = ((k, v) :: aremove val k l, Some v).
Proof. intros H. unfold aget. rewrite H. auto. Qed.
Theorem get_miss_unchanged (l : alist) k : afind val k l = None -> aget val l k = (l, None).
Proof. intros H. unfold aget. rewrite H. auto. Qed.
Theorem set_new_full_evicts_lru cap (l : alist) k v : length l = cap -> 1 <= cap -> afind val k l = None ->
  aset val cap l k v = (k, v) :: removelast l.
Proof.
  intros HL Hc E. unfold aset. rewrite E. destruct (Nat.ltb_spec cap (length ((k, v) :: l))); [|simpl in *; lia].
  destruct l; simpl in *; [lia|]. reflexivity.
Qed.
Theorem set_new_room_keeps_all cap (l : alist) k v : length l < cap -> afind val k l = None ->
  aset val cap l k v = (k, v) :: l.
Proof.
  intros HL E. unfold aset. rewrite E. destruct (Nat.ltb_spec cap (length ((k, v) :: l))); [simpl in *; lia|auto].
Qed.
Theorem set_existing_replaces cap (l : alist) k v v0 :
  afind val k l = Some v0 -> aset val cap l k v = (k, v) :: aremove val k l.
Proof. intros H. unfold aset. rewrite H. auto. Qed.
Theorem set_cap0_empty (l : alist) k v : l = [] -> aset val 0 l k v = [].
Proof. intros ->. reflexivity. Qed.
Theorem del_only_that_key (l : alist) k v : afind val k l = Some v ->
  adel val l k = (aremove val k l, true).
Proof. intros H. unfold adel. rewrite H. auto. Qed.
Theorem del_absent (l : alist) k : afind val k l = None -> adel val l k = (l, false).
Proof. intros H. unfold adel. rewrite H. auto. Qed.
Lemma afind_aremove_other k k' (l : alist) : k <> k' -> afind val k' (aremove val k l) = afind val k' l.
Proof.
  intros NE. induction l as [|[k0 v0] l IH]; simpl; auto.
  destruct (str_eqb_spec k k0); subst.
  - destruct (str_eqb_spec k' k0); [congruence|auto].
  - simpl. destruct (str_eqb k' k0); auto.
Qed.
Lemma afind_aremove_same k (l : alist) : NoDup (akeys val l) -> afind val k (aremove val k l) = None.
Proof. intros ND. apply afind_none_notin. apply aremove_nodup; auto. Qed.
Theorem after_set_get cap (l : alist) k v : 1 <= cap -> ainv cap l -> afind val k (aset val cap l k v) = Some v.
Proof.
  intros Hc I. destruct (set_is_mru cap l k v Hc I) as [r ->]. simpl. rewrite str_eqb_refl. auto.
Qed.

(* ================= refinement: node list + hash index  ->  recency list ================= *)
Fixpoint nfind (k : str) (l : list node) : option node :=
  match l with [] => None | n :: r => if str_eqb k (nkey n) then Some n else nfind k r end.
Fixpoint nremove (k : str) (l : list node) : list node :=
  match l with [] => [] | n :: r => if str_eqb k (nkey n) then r else n :: nremove k r end.

Definition iinv (c : icache) : Prop :=
  NoDup (map nid (ilst c)) /\ NoDup (map nkey (ilst c)) /\
  (forall k, hfind k (ihm c) = option_map nid (nfind k (ilst c))) /\
  (forall n, In n (ilst c) -> nid n < inext c).

Notation absl := (map (fun n : node => (nkey n, nval n))).

Lemma afind_abs k (l : list node) : afind val k (absl l) = option_map nval (nfind k l).
Proof. induction l as [|n l IH]; simpl; auto. destruct (str_eqb k (nkey n)); auto. Qed.
Lemma aremove_abs k (l : list node) : aremove val k (absl l) = absl (nremove k l).
Proof. induction l as [|n l IH]; simpl; auto. destruct (str_eqb k (nkey n)); simpl; auto. rewrite IH. auto. Qed.
Lemma nfind_in k (l : list node) n : nfind k l = Some n -> In n l /\ nkey n = k.
Proof.
  induction l as [|n0 l IH]; simpl; [discriminate|].
  destruct (str_eqb_spec k (nkey n0)); intros H.
  - inversion H; subst. auto.
  - destruct (IH H); auto.
Qed.
Lemma take_node_spec k (l : list node) n : NoDup (map nid l) -> nfind k l = Some n ->
  take_node val (nid n) l = (Some n, nremove k l).
Proof.
  induction l as [|n0 l IH]; simpl; [discriminate|]. intros ND H.
  inversion ND as [|? ? Hn ND']; subst.
  destruct (str_eqb_spec k (nkey n0)).
  - inversion H; subst. rewrite Nat.eqb_refl. auto.
  - destruct (nfind_in _ _ _ H) as [Hin _].
    destruct (Nat.eqb_spec (nid n0) (nid n)) as [E|NE].
    + exfalso. apply Hn. rewrite E. apply in_map. auto.
    + rewrite IH; auto.
Qed.
Lemma in_nremove k (l : list node) x : In x (nremove k l) -> In x l.
Proof. induction l as [|n l IH]; simpl; auto. destruct (str_eqb k (nkey n)); simpl; auto. intros [H|H]; auto. Qed.
Lemma nremove_nodup {B} (f : node -> B) k (l : list node) : NoDup (map f l) -> NoDup (map f (nremove k l)).
Proof.
  induction l as [|n l IH]; simpl; auto. intros ND. inversion ND as [|? ? Hn ND']; subst.
  destruct (str_eqb k (nkey n)); auto. simpl. constructor; auto.
  intros H. apply Hn. apply in_map_iff in H. destruct H as (x & E & Hin). apply in_map_iff. exists x.
  split; auto. eapply in_nremove; eauto.
Qed.
Lemma nfind_nremove_other k k' (l : list node) : k <> k' -> nfind k' (nremove k l) = nfind k' l.
Proof.
  intros NE. induction l as [|n l IH]; simpl; auto.
  destruct (str_eqb_spec k (nkey n)).
  - destruct (str_eqb_spec k' (nkey n)); [congruence|auto].
  - simpl. destruct (str_eqb k' (nkey n)); auto.
Qed.
Lemma nfind_none_notin k (l : list node) : nfind k l = None <-> ~ In k (map nkey l).
Proof.
  induction l as [|n l IH]; simpl; [tauto|].
  destruct (str_eqb_spec k (nkey n)).
  - split; [discriminate|]. intros H; exfalso; apply H; auto.
  - rewrite IH. split; intros H; [intros [E|E]; [congruence|auto]|auto].
Qed.
Lemma nfind_nremove_same k (l : list node) : NoDup (map nkey l) -> nfind k (nremove k l) = None.
Proof.
  induction l as [|n l IH]; simpl; auto. intros ND. inversion ND as [|? ? Hn ND']; subst.
  destruct (str_eqb_spec k (nkey n)).
  - subst. apply nfind_none_notin. auto.
  - simpl. destruct (str_eqb_spec k (nkey n)); [congruence|auto].
Qed.
Lemma hfind_hremove k k' h : hfind k' (hremove k h) = if str_eqb k' k then None else hfind k' h.
Proof.
  induction h as [|[k0 i] h IH]; simpl.
  - destruct (str_eqb k' k); auto.
  - destruct (str_eqb_spec k k0); subst.
    + rewrite IH. destruct (str_eqb_spec k' k0); auto.
    + simpl. rewrite IH. destruct (str_eqb_spec k' k0); subst; auto.
      destruct (str_eqb_spec k0 k); [congruence|auto].
Qed.
Lemma absl_removelast (l : list node) : absl (removelast l) = removelast (absl l).
Proof. induction l as [|n l IH]; simpl; auto. destruct l; simpl in *; auto. rewrite IH. auto. Qed.
Lemma nfind_removelast k (l : list node) d : l <> [] -> NoDup (map nkey l) ->
  nfind k (removelast l) = if str_eqb k (nkey (last l d)) then None else nfind k l.
Proof.
  induction l as [|n l IH]; [congruence|]. intros _ ND. inversion ND as [|? ? Hn ND']; subst.
  destruct l as [|n1 l'].
  - simpl. destruct (str_eqb k (nkey n)); auto.
  - change (removelast (n :: n1 :: l')) with (n :: removelast (n1 :: l')).
    change (last (n :: n1 :: l') d) with (last (n1 :: l') d).
    cbn [nfind]. rewrite IH by (auto; discriminate).
    destruct (str_eqb_spec k (nkey n)) as [E|NE]; auto.
    destruct (str_eqb_spec k (nkey (last (n1 :: l') d))) as [E2|NE2]; auto.
    exfalso. apply Hn. rewrite <- E, E2. apply in_map.
    destruct (exists_last (l:=n1 :: l')) as (q & a & Hq); [discriminate|]. rewrite Hq.
    rewrite last_last. apply in_or_app. right. left. auto.
Qed.
Lemma nodup_map_removelast {B} (f : node -> B) (l : list node) : NoDup (map f l) -> NoDup (map f (removelast l)).
Proof.
  induction l as [|n l IH]; simpl; auto. intros ND. inversion ND as [|? ? Hn ND']; subst.
  destruct l as [|n1 l']; [constructor|]. simpl. constructor; auto.
  intros H. apply Hn. apply in_map_iff in H. destruct H as (x & E & Hin). apply in_map_iff. exists x. split; auto.
  apply (in_removelast (n1 :: l')). auto.
Qed.

Lemma iinv_new size : iinv (inew val size).
Proof. repeat split; simpl; try constructor; auto. intros n []. Qed.

Theorem iset_refines (c : icache) k v : iinv c ->
  iinv (iset val c k v) /\ abs val (iset val c k v) = aset val (isize c) (abs val c) k v
  /\ isize (iset val c k v) = isize c.
Proof.
  intros (NDi & NDk & HX & HN). unfold iset, abs, aset. rewrite afind_abs. rewrite HX.
  destruct (nfind k (ilst c)) as [n|] eqn:E; cbn [option_map].
  - rewrite (take_node_spec k _ n NDi E). destruct (nfind_in _ _ _ E) as [Hin Hk]. cbn.
    split; [|split; auto].
    + repeat split; cbn.
      * constructor; [|apply nremove_nodup; auto].
        intros H. apply in_map_iff in H. destruct H as (x & Ex & Hx).
        (* x in nremove k l has the id of n: then x = n by NoDup ids, but n's key is k and was removed *)
        assert (Hxl: In x (ilst c)) by (eapply in_nremove; eauto).
        assert (x = n).
        { clear -NDi Hxl Hin Ex. induction (ilst c) as [|a l IH]; [destruct Hin|].
          inversion NDi as [|? ? Hn ND']; subst. simpl in *.
          destruct Hxl as [->|Hxl], Hin as [->|Hin]; auto.
          - exfalso. apply Hn. rewrite Ex. apply in_map; auto.
          - exfalso. apply Hn. rewrite <- Ex. apply in_map; auto. }
        subst x. assert (Hnone: nfind k (nremove k (ilst c)) = None) by (apply nfind_nremove_same; auto).
        apply nfind_none_notin in Hnone. apply Hnone. apply in_map_iff. exists n. split; auto.
      * rewrite Hk. constructor; [|apply nremove_nodup; auto].
        assert (Hnone: nfind k (nremove k (ilst c)) = None) by (apply nfind_nremove_same; auto).
        apply nfind_none_notin in Hnone. auto.
      * intros k'. rewrite HX. rewrite Hk. destruct (str_eqb_spec k' k); subst.
        -- rewrite E. reflexivity.
        -- rewrite nfind_nremove_other by auto. reflexivity.
      * intros x [<-|Hx]; cbn; [apply HN; auto|apply HN; eapply in_nremove; eauto].
    + rewrite Hk. rewrite aremove_abs. reflexivity.
  - cbn [length map]. rewrite map_length.
    set (n := {| nid := inext c; nkey := k; nval := v |}).
    assert (NDi': NoDup (map nid (n :: ilst c))).
    { simpl. constructor; auto. intros H. apply in_map_iff in H. destruct H as (x & Ex & Hx).
      apply HN in Hx. lia. }
    assert (NDk': NoDup (map nkey (n :: ilst c))).
    { simpl. constructor; auto. apply nfind_none_notin. auto. }
    assert (HX': forall k', hfind k' ((k, inext c) :: ihm c) = option_map nid (nfind k' (n :: ilst c))).
    { intros k'. simpl. destruct (str_eqb k' k); auto. }
    destruct (Nat.ltb (isize c) (S (length (ilst c)))); cbn [isize ilst ihm inext].
    + split; [|split; auto].
      * repeat split; cbn [ilst ihm inext isize].
        -- apply (nodup_map_removelast nid (n :: ilst c)); auto.
        -- apply (nodup_map_removelast nkey (n :: ilst c)); auto.
        -- intros k'. rewrite hfind_hremove. rewrite HX'.
           rewrite (nfind_removelast k' (n :: ilst c) n) by (auto; discriminate).
           destruct (str_eqb k' (nkey (last (n :: ilst c) n))); auto.
        -- intros x Hx. apply (in_removelast (n :: ilst c)) in Hx. destruct Hx as [<-|Hx]; cbn; [lia|].
           apply HN in Hx. lia.
      * change ((k, v) :: absl (ilst c)) with (absl (n :: ilst c)). rewrite <- absl_removelast. reflexivity.
    + split; [|split; auto]. repeat split; auto.
      intros x [<-|Hx]; cbn; [lia|]. apply HN in Hx. lia.
Qed.

Theorem iget_refines (c : icache) k : iinv c ->
  iinv (fst (iget val c k)) /\ abs val (fst (iget val c k)) = fst (aget val (abs val c) k)
  /\ snd (iget val c k) = snd (aget val (abs val c) k) /\ isize (fst (iget val c k)) = isize c.
Proof.
  intros (NDi & NDk & HX & HN). unfold iget, abs, aget. rewrite afind_abs. rewrite HX.
  destruct (nfind k (ilst c)) as [n|] eqn:E; cbn [option_map].
  - rewrite (take_node_spec k _ n NDi E). destruct (nfind_in _ _ _ E) as [Hin Hk]. cbn.
    assert (Hnone: nfind k (nremove k (ilst c)) = None) by (apply nfind_nremove_same; auto).
    split; [|split; [|split; auto]].
    + repeat split; cbn.
      * constructor; [|apply nremove_nodup; auto].
        intros H. apply in_map_iff in H. destruct H as (x & Ex & Hx).
        assert (Hxl: In x (ilst c)) by (eapply in_nremove; eauto).
        assert (x = n).
        { clear -NDi Hxl Hin Ex. induction (ilst c) as [|a l IH]; [destruct Hin|].
          inversion NDi as [|? ? Hn ND']; subst. simpl in *.
          destruct Hxl as [->|Hxl], Hin as [->|Hin]; auto.
          - exfalso. apply Hn. rewrite Ex. apply in_map; auto.
          - exfalso. apply Hn. rewrite <- Ex. apply in_map; auto. }
        subst x. apply nfind_none_notin in Hnone. apply Hnone. apply in_map_iff. exists n. split; auto.
      * constructor; [|apply nremove_nodup; auto]. rewrite Hk. apply nfind_none_notin. auto.
      * intros k'. rewrite HX. destruct (str_eqb_spec k' (nkey n)) as [E'|NE'].
        -- rewrite E', Hk, E. reflexivity.
        -- rewrite nfind_nremove_other by congruence. reflexivity.
      * intros x [<-|Hx]; [apply HN; auto|apply HN; eapply in_nremove; eauto].
    + rewrite Hk. rewrite aremove_abs. reflexivity.
  - cbn. repeat split; auto.
Qed.

Theorem idel_refines (c : icache) k : iinv c ->
  iinv (fst (idel val c k)) /\ abs val (fst (idel val c k)) = fst (adel val (abs val c) k)
  /\ snd (idel val c k) = snd (adel val (abs val c) k) /\ isize (fst (idel val c k)) = isize c.
Proof.
  intros (NDi & NDk & HX & HN). unfold idel, abs, adel. rewrite afind_abs. rewrite HX.
  destruct (nfind k (ilst c)) as [n|] eqn:E; cbn [option_map].
  - rewrite (take_node_spec k _ n NDi E). destruct (nfind_in _ _ _ E) as [Hin Hk]. cbn.
    split; [|split; [|split; auto]].
    + repeat split; cbn.
      * apply nremove_nodup; auto.
      * apply nremove_nodup; auto.
      * intros k'. rewrite hfind_hremove, HX, Hk. destruct (str_eqb_spec k' k); subst.
        -- rewrite nfind_nremove_same; auto.
        -- rewrite nfind_nremove_other by auto. reflexivity.
      * intros x Hx. apply HN. eapply in_nremove; eauto.
    + rewrite aremove_abs. reflexivity.
  - cbn. repeat split; auto.
Qed.

Lemma ikeys_abs (c : icache) : ikeys val c = akeys val (abs val c).
Proof. unfold ikeys, akeys, abs. rewrite map_map. reflexivity. Qed.

Theorem istep_refines (c : icache) o : iinv c ->
  iinv (fst (istep val c o)) /\ abs val (fst (istep val c o)) = fst (astep val (isize c) (abs val c) o)
  /\ snd (istep val c o) = snd (astep val (isize c) (abs val c) o) /\ isize (fst (istep val c o)) = isize c.
Proof.
  intros I. destruct o as [k v|k|k|k|]; cbn [istep astep].
  - destruct (iset_refines c k v I) as (A & B & C). cbn. auto.
  - destruct (iget_refines c k I) as (A & B & C & D).
    destruct (iget val c k), (aget val (abs val c) k); cbn in *. subst. auto.
  - destruct (iget_refines c k I) as (A & B & C & D).
    destruct (iget val c k), (aget val (abs val c) k); cbn in *. subst. auto.
  - destruct (idel_refines c k I) as (A & B & C & D).
    destruct (idel val c k), (adel val (abs val c) k); cbn in *. subst. auto.
  - cbn. unfold ilen, abs. rewrite map_length. auto.
Qed.

(* every history: the implementation-shaped model produces exactly the spec's observations *)
Theorem irun_refines ops : forall c : icache, iinv c ->
  irun val c ops = arun val (isize c) (abs val c) ops.
Proof.
  induction ops as [|o ops IH]; intros c I; cbn [irun arun]; auto.
  destruct (istep_refines c o I) as (A & B & C & D).
  destruct (istep val c o) as [c' x]. destruct (astep val (isize c) (abs val c) o) as [l' y].
  cbn in *. subst. rewrite ikeys_abs. rewrite IH by auto. rewrite D. reflexivity.
Qed.

End Facts.
