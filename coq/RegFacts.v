(* RegFacts.v — the imperative registration (save / extend / run / restore) equals lexical scoping. *)
From Rux Require Import Base BaseFacts Str Norm NormFacts Reg.

(* nested induction principle for statements *)
Section stmt_ind2.
Variable P : stmt -> Prop.
Variable Q : list stmt -> Prop.
Hypothesis HUse : forall m, P (SUse m).
Hypothesis HGroup : forall p m body, Q body -> P (SGroup p m body).
Hypothesis HRoute : forall a b c d e f, P (SRoute a b c d e f).
Hypothesis HNF : forall h, P (SNotFound h).
Hypothesis HNA : forall h, P (SNotAllowed h).
Hypothesis Hnil : Q [].
Hypothesis Hcons : forall x r, P x -> Q r -> Q (x :: r).
Fixpoint stmt_ind2 (s : stmt) : P s :=
  match s with
  | SUse m => HUse m
  | SGroup p m body =>
      HGroup p m body ((fix blk (l : list stmt) : Q l :=
                          match l with [] => Hnil | x :: r => Hcons x r (stmt_ind2 x) (blk r) end) body)
  | SRoute a b c d e f => HRoute a b c d e f
  | SNotFound h => HNF h
  | SNotAllowed h => HNA h
  end.
Definition block_ind2 (l : list stmt) : Q l :=
  (fix blk (l : list stmt) : Q l :=
     match l with [] => Hnil | x :: r => Hcons x r (stmt_ind2 x) (blk r) end) l.
End stmt_ind2.

Lemma exec_stmt_group strict p m body st :
  exec_stmt strict (SGroup p m body) st =
  match format_path strict p with
  | Panic => Panic
  | Ok p' => match exec_block strict body (set_scope (g_prefix st ++ p') (g_handlers st ++ m) st) with
             | Panic => Panic
             | Ok st2 => Ok (set_scope (g_prefix st) (g_handlers st) st2)
             end
  end.
Proof. reflexivity. Qed.
Lemma den_stmt_group strict pfx g p m body :
  den_stmt strict pfx g (SGroup p m body) = (den_block strict (pfx ++ nf strict p) (g ++ m) body, g).
Proof. reflexivity. Qed.

Lemma is_nil_true {A} (l : list A) : is_nil l = true -> l = [].
Proof. destruct l; [auto|discriminate]. Qed.

Lemma exec_route_ok strict meths P main var later name st st' :
  exec_route strict meths P main var later name st = Ok st' ->
  st' = add_route st {| r_methods := meths;
           r_path := (if is_nil (g_prefix st) then nf strict P else nf strict (g_prefix st ++ nf strict P));
           r_handlers := g_handlers st ++ var ++ later; r_main := main; r_name := name |}.
Proof.
  unfold exec_route, group_info. rewrite format_reg_lookup, format_core. cbn [bind].
  fold (nf strict P).
  assert (E: (if is_nil (g_prefix st) then Ok (nf strict P) else format_path strict (g_prefix st ++ nf strict P))
             = Ok (if is_nil (g_prefix st) then nf strict P else nf strict (g_prefix st ++ nf strict P))).
  { destruct (is_nil (g_prefix st)); [reflexivity|]. rewrite format_core. reflexivity. }
  rewrite E. cbn [bind]. clear E.
  destruct (is_nil (g_handlers st)) eqn:Eg.
  - apply is_nil_true in Eg. rewrite Eg. cbn [bind]. unfold route_use.
    destruct (Nat.leb limit (List.length (@nil hid) + List.length var)); cbn [bind]; [discriminate|].
    destruct (Nat.leb limit (List.length ([] ++ var) + List.length later)); cbn [bind]; [discriminate|].
    intros H. inversion H. cbn [app]. reflexivity.
  - destruct (Nat.leb limit (List.length (g_handlers st))); cbn [bind]; [discriminate|]. unfold route_use.
    destruct (Nat.leb limit (List.length (g_handlers st) + List.length var)); cbn [bind]; [discriminate|].
    destruct (Nat.leb limit (List.length (g_handlers st ++ var) + List.length later)); cbn [bind]; [discriminate|].
    intros H. inversion H. rewrite <- app_assoc. reflexivity.
Qed.

Definition stmt_spec strict (s : stmt) : Prop := forall st st',
  exec_stmt strict s st = Ok st' ->
  r_routes st' = r_routes st ++ fst (den_stmt strict (g_prefix st) (g_handlers st) s) /\
  g_prefix st' = g_prefix st /\
  g_handlers st' = snd (den_stmt strict (g_prefix st) (g_handlers st) s).
Definition block_spec strict (ss : list stmt) : Prop := forall st st',
  exec_block strict ss st = Ok st' ->
  r_routes st' = r_routes st ++ den_block strict (g_prefix st) (g_handlers st) ss /\
  g_prefix st' = g_prefix st /\
  g_handlers st' = scope_after (g_prefix st) (g_handlers st) ss.

Lemma scoping_both strict : (forall s, stmt_spec strict s) /\ (forall ss, block_spec strict ss).
Proof.
  assert (HS: forall s, stmt_spec strict s).
  { apply (stmt_ind2 (stmt_spec strict) (block_spec strict)).
    - (* Use *) intros m st st' H. cbn [exec_stmt] in H. inversion H; subst st'. clear H.
      unfold exec_use. cbn [den_stmt fst snd]. destruct (is_nil (g_prefix st)); cbn; rewrite app_nil_r; auto.
    - (* Group *) intros p m body IH st st' H. rewrite exec_stmt_group in H. rewrite format_core in H.
      fold (nf strict p) in H.
      destruct (exec_block strict body _) as [st2|] eqn:E; [|discriminate]. inversion H; subst st'. clear H.
      destruct (IH _ _ E) as (R & Pf & G). cbn [set_scope g_prefix g_handlers r_routes] in *.
      rewrite den_stmt_group. cbn [fst snd]. auto.
    - (* Route *) intros meths P main var later name st st' H. cbn [exec_stmt] in H.
      apply exec_route_ok in H. subst st'. cbn [den_stmt fst snd add_route r_routes g_prefix g_handlers]. auto.
    - intros h st st' H. cbn [exec_stmt] in H. inversion H; subst. cbn. rewrite app_nil_r. auto.
    - intros h st st' H. cbn [exec_stmt] in H. inversion H; subst. cbn. rewrite app_nil_r. auto.
    - intros st st' H. cbn [exec_block run_block] in H. inversion H; subst. cbn. rewrite app_nil_r. auto.
    - intros x r IHx IHr st st' H. unfold exec_block in H. cbn [run_block] in H.
      destruct (exec_stmt strict x st) as [st1|] eqn:E; [|discriminate]. fold (exec_block strict) in H.
      destruct (IHx _ _ E) as (R1 & P1 & G1). destruct (IHr _ _ H) as (R2 & P2 & G2).
      unfold den_block. cbn [den_blockf scope_after]. fold (den_block strict (g_prefix st)). destruct (den_stmt strict (g_prefix st) (g_handlers st) x) as [rs g'] eqn:D.
      cbn [fst snd] in *. rewrite R2, R1, P1, G1. rewrite <- app_assoc. repeat split; auto; try congruence.
      rewrite G2, P1, G1.
      (* scope_after of x :: r *)
      destruct x; cbn [den_stmt snd] in D; inversion D; subst; reflexivity. }
  split; auto.
  intros ss. apply (block_ind2 (stmt_spec strict) (block_spec strict)); auto.
  - intros st st' H. cbn [exec_block run_block] in H. inversion H; subst. cbn. rewrite app_nil_r. auto.
  - intros x r IHx IHr st st' H. unfold exec_block in H. cbn [run_block] in H.
    destruct (exec_stmt strict x st) as [st1|] eqn:E; [|discriminate]. fold (exec_block strict) in H.
    destruct (IHx _ _ E) as (R1 & P1 & G1). destruct (IHr _ _ H) as (R2 & P2 & G2).
    unfold den_block. cbn [den_blockf scope_after]. fold (den_block strict (g_prefix st)). destruct (den_stmt strict (g_prefix st) (g_handlers st) x) as [rs g'] eqn:D.
    cbn [fst snd] in *. rewrite R2, R1, P1, G1. rewrite <- app_assoc. repeat split; auto; try congruence.
    rewrite G2, P1, G1.
    destruct x; cbn [den_stmt snd] in D; inversion D; subst; reflexivity.
Qed.

(* C12: every registration program that registration accepts registers exactly the lexically scoped routes *)
Theorem scoping strict ss st st' : exec_block strict ss st = Ok st' ->
  r_routes st' = r_routes st ++ den_block strict (g_prefix st) (g_handlers st) ss.
Proof. intros H. apply (proj2 (scoping_both strict) ss st st' H). Qed.

(* when Group returns, prefix and group middleware are exactly what they were *)
Theorem group_restores strict p m body st st' : exec_stmt strict (SGroup p m body) st = Ok st' ->
  g_prefix st' = g_prefix st /\ g_handlers st' = g_handlers st.
Proof.
  intros H. destruct (proj1 (scoping_both strict) _ _ _ H) as (_ & P & G). rewrite den_stmt_group in G. auto.
Qed.

(* a whole program run from the initial state leaves no scope behind except top-level Use (which is global) *)
Theorem program_routes strict ss st' : exec_block strict ss rinit = Ok st' ->
  r_routes st' = den_block strict [] [] ss /\ g_prefix st' = [] /\ g_handlers st' = [].
Proof.
  intros H. destruct (proj2 (scoping_both strict) ss _ _ H) as (R & P & G). cbn in *. repeat split; auto.
  rewrite G. clear. assert (L: forall g, scope_after [] g ss = g).
  { induction ss as [|s ss IH]; intros g; cbn; auto. destruct s; auto. }
  apply L.
Qed.

(* Use inside a group only affects routes registered later inside that group *)
Theorem use_local strict pfx g mws rest : pfx <> [] ->
  den_block strict pfx g (SUse mws :: rest) = den_block strict pfx (g ++ mws) rest.
Proof. intros H. unfold den_block. cbn [den_blockf den_stmt app]. destruct pfx; [congruence|reflexivity]. Qed.
Theorem sibling_unaffected strict pfx g p m body rest :
  den_block strict pfx g (SGroup p m body :: rest) =
  den_block strict (pfx ++ nf strict p) (g ++ m) body ++ den_block strict pfx g rest.
Proof. unfold den_block at 1. cbn [den_blockf]. rewrite den_stmt_group. reflexivity. Qed.

(* too many handlers is rejected at registration (C05_limit / C13) *)
Theorem route_limit strict meths P main var later name st st' :
  exec_route strict meths P main var later name st = Ok st' ->
  (List.length (g_handlers st ++ var ++ later) < limit)%nat.
Proof.
  unfold exec_route, group_info. rewrite format_reg_lookup, format_core. cbn [bind].
  destruct (if is_nil (g_prefix st) then _ else _) as [pp|]; cbn [bind]; [|discriminate].
  destruct (is_nil (g_handlers st)) eqn:Eg.
  - apply is_nil_true in Eg. rewrite Eg. cbn [bind]. unfold route_use.
    destruct (Nat.leb_spec limit (List.length (@nil hid) + List.length var)); cbn [bind]; [discriminate|].
    destruct (Nat.leb_spec limit (List.length ([] ++ var) + List.length later)); cbn [bind]; [discriminate|].
    intros _. cbn [app] in *. rewrite app_length. lia.
  - destruct (Nat.leb_spec limit (List.length (g_handlers st))); cbn [bind]; [discriminate|]. unfold route_use.
    destruct (Nat.leb_spec limit (List.length (g_handlers st) + List.length var)); cbn [bind]; [discriminate|].
    destruct (Nat.leb_spec limit (List.length (g_handlers st ++ var) + List.length later)); cbn [bind]; [discriminate|].
    intros _. rewrite !app_length in *. lia.
Qed.
