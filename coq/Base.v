(* Base.v — strings, outcomes and small list utilities shared by all models.
   A string is a list of code points (N); see DESIGN.md section 3. *)
From Coq Require Export List NArith ZArith Bool Arith Lia.
Export ListNotations.

Definition ch := N.
Definition str := list ch.

Definition slash  : ch := 47%N.
Definition dot    : ch := 46%N.
Definition lbrace : ch := 123%N.
Definition rbrace : ch := 125%N.
Definition lbrack : ch := 91%N.
Definition rbrack : ch := 93%N.
Definition colon  : ch := 58%N.
Definition bslash : ch := 92%N.
Definition star_c : ch := 42%N.

Definition str_eq_dec : forall a b : str, {a = b} + {a <> b} := list_eq_dec N.eq_dec.
Fixpoint str_eqb (a b : str) : bool :=
  match a, b with
  | [], [] => true
  | x :: a', y :: b' => N.eqb x y && str_eqb a' b'
  | _, _ => false
  end.

Definition mem (x : str) (l : list str) : bool := existsb (str_eqb x) l.

(* outcome of a Go operation that may panic *)
Inductive outcome (A : Type) := Ok (a : A) | Panic.
Arguments Ok {A}. Arguments Panic {A}.

Definition bind {A B} (x : outcome A) (f : A -> outcome B) : outcome B :=
  match x with Ok a => f a | Panic => Panic end.

Fixpoint has_prefix (pre s : str) : bool :=
  match pre, s with
  | [], _ => true
  | a :: pre', b :: s' => N.eqb a b && has_prefix pre' s'
  | _ :: _, [] => false
  end.

(* association lists keyed by strings *)
Fixpoint assoc {A} (k : str) (l : list (str * A)) : option A :=
  match l with [] => None | (k', v) :: r => if str_eqb k k' then Some v else assoc k r end.
