(* Conc.v — interleavings of concurrent requests on the shared parts of a router:
   (A) lookups sharing the LRU cache (every cache operation is atomic: it runs under the cache mutex),
   (B) handler-chain assembly on the slice memory model (append may write into shared spare capacity),
   (C) the context pool, (D) access footprints for the race-freedom argument.
   The Go memory model below this granularity, sync.Pool and sync.RWMutex themselves are not modelled. *)
From Rux Require Import Base Str Pattern Cache Table.

(* ================= (A) lookups ================= *)
(* Router.match touches the cache twice: Get (a hit also moves the entry to the front) and, after a miss and a
   successful dynamic match, Set. Other requests may run between the two. *)
Inductive phase := PStart | PMiss.
Record thread := { pending : list (str * str); ph : phase; results : list lres }.
Definition mk_thread (qs : list (str * str)) : thread := {| pending := qs; ph := PStart; results := [] |}.

Definition finish_lookup (t : thread) (r : lres) : thread :=
  {| pending := tl (pending t); ph := PStart; results := results t ++ [r] |}.

(* one atomic action of thread t on the shared router *)
Definition thread_step (rt : router) (t : thread) : router * thread :=
  match pending t with
  | [] => (rt, t)
  | (m, path) :: _ =>
    match ph t with
    | PStart =>
        match assoc (m ++ path) (stable rt) with
        | Some rid => (rt, finish_lookup t (LHit rid None))
        | None =>
            if o_caching (ropts rt) then
              match aget (nat * params) (cache rt) (m ++ path) with
              | (c1, Some (rid, ps)) => (set_cache rt c1, finish_lookup t (LHit rid (Some ps)))
              | (c1, None) => (set_cache rt c1, {| pending := pending t; ph := PMiss; results := results t |})
              end
            else (rt, {| pending := pending t; ph := PMiss; results := results t |})
        end
    | PMiss =>
        match dyn_match rt m path with
        | LHit rid (Some ps) =>
            (set_cache rt (if o_caching (ropts rt) then aset (nat * params) (o_cap (ropts rt)) (cache rt) (m ++ path) (rid, ps) else cache rt),
             finish_lookup t (LHit rid (Some ps)))
        | r => (rt, finish_lookup t r)
        end
    end
  end.

Fixpoint upd_nth {A} (n : nat) (x : A) (l : list A) : list A :=
  match l, n with
  | [], _ => []
  | _ :: r, O => x :: r
  | y :: r, S n' => y :: upd_nth n' x r
  end.

(* a schedule is a list of thread numbers *)
Fixpoint run_sched (rt : router) (ts : list thread) (sched : list nat) : router * list thread :=
  match sched with
  | [] => (rt, ts)
  | i :: rest =>
      match nth_error ts i with
      | None => run_sched rt ts rest
      | Some t => let '(rt', t') := thread_step rt t in run_sched rt' (upd_nth i t' ts) rest
      end
  end.

(* what a thread would answer alone on the cache-free router *)
Definition solo_results (rt : router) (qs : list (str * str)) : list lres :=
  map (fun '(m, p) => fst (match_ rt m p)) qs.

(* ================= (B) chain assembly on slices ================= *)
(* heap of arrays of handler ids; a slice is (array, len, cap) *)
Record slice := { s_arr : nat; s_len : nat; s_cap : nat }.
Definition heap := list (list nat).            (* array id = position; each array has its capacity as length *)

Definition arr_get (h : heap) (a : nat) : list nat := nth a h [].
Definition slice_elems (h : heap) (s : slice) : list nat := firstn (s_len s) (arr_get h (s_arr s)).
Fixpoint write_at (l : list nat) (pos : nat) (xs : list nat) : list nat :=
  match xs with
  | [] => l
  | x :: r => write_at (upd_nth pos x l) (S pos) r
  end.
(* Go append: in place when the capacity suffices (writing beyond len into the shared array), otherwise a fresh
   array; grow = capacity of the fresh array minus what is needed (any growth policy) *)
Definition append (grow : nat) (h : heap) (s : slice) (xs : list nat) : heap * slice :=
  if Nat.leb (s_len s + List.length xs) (s_cap s)
  then (upd_nth (s_arr s) (write_at (arr_get h (s_arr s)) (s_len s) xs) h,
        {| s_arr := s_arr s; s_len := s_len s + List.length xs; s_cap := s_cap s |})
  else let n := s_len s + List.length xs in
       (h ++ [slice_elems h s ++ xs ++ repeat 0 grow],
        {| s_arr := List.length h; s_len := n; s_cap := n + grow |}).
(* combineHandlers: always a fresh array of exactly the needed size *)
Definition combine (h : heap) (a b : list nat) : heap * slice :=
  (h ++ [a ++ b], {| s_arr := List.length h; s_len := List.length a + List.length b; s_cap := List.length a + List.length b |}).

(* a request: assemble the chain (one atomic action: the code runs it without yielding, but other requests may run
   before the handlers are fetched), then fetch handler i from the chain's array at each step *)
Record creq := { c_route : list nat; c_main : nat; c_chain : option slice; c_pos : nat; c_ran : list nat }.
Definition mk_creq (route : list nat) (main : nat) : creq :=
  {| c_route := route; c_main := main; c_chain := None; c_pos := 0; c_ran := [] |}.

(* fixed = true: dispatch after repair F11 (fresh slices); fixed = false: append(r.handlers, ...) *)
Definition creq_step (fixed : bool) (grow : nat) (globals : slice) (h : heap) (r : creq) : heap * creq :=
  match c_chain r with
  | None =>
      let rest := c_route r ++ [c_main r] in
      let '(h', ch) := if fixed then combine h (slice_elems h globals) rest else append grow h globals rest in
      (h', {| c_route := c_route r; c_main := c_main r; c_chain := Some ch; c_pos := 0; c_ran := [] |})
  | Some ch =>
      if Nat.ltb (c_pos r) (s_len ch)
      then (h, {| c_route := c_route r; c_main := c_main r; c_chain := Some ch; c_pos := S (c_pos r);
                  c_ran := c_ran r ++ [nth (c_pos r) (arr_get h (s_arr ch)) 0] |})
      else (h, r)
  end.
Fixpoint run_creqs (fixed : bool) (grow : nat) (globals : slice) (h : heap) (rs : list creq) (sched : list nat) : heap * list creq :=
  match sched with
  | [] => (h, rs)
  | i :: rest =>
      match nth_error rs i with
      | None => run_creqs fixed grow globals h rs rest
      | Some r => let '(h', r') := creq_step fixed grow globals h r in run_creqs fixed grow globals h' (upd_nth i r' rs) rest
      end
  end.
Definition creq_done (r : creq) : bool := match c_chain r with Some ch => Nat.leb (s_len ch) (c_pos r) | None => false end.

(* ================= (C) the context pool ================= *)
(* contexts are numbers; the pool is a multiset (list); get takes any pooled context or allocates a fresh one *)
Record pool_state := { pooled : list nat; in_use : list nat; next_ctx : nat }.
Inductive pool_op := PGet (choice : option nat) | PPut (c : nat).     (* choice = position in the pool, None = allocate *)
Definition pool_step (s : pool_state) (o : pool_op) : pool_state :=
  match o with
  | PGet (Some i) =>
      match nth_error (pooled s) i with
      | Some c => {| pooled := firstn i (pooled s) ++ skipn (S i) (pooled s); in_use := c :: in_use s; next_ctx := next_ctx s |}
      | None => s
      end
  | PGet None => {| pooled := pooled s; in_use := next_ctx s :: in_use s; next_ctx := S (next_ctx s) |}
  | PPut c => {| pooled := c :: pooled s; in_use := remove Nat.eq_dec c (in_use s); next_ctx := next_ctx s |}
  end.
(* discipline of ServeHTTP after repair F16: a context is put back exactly once, by the request that got it *)
Definition put_ok (s : pool_state) (o : pool_op) : Prop :=
  match o with PPut c => In c (in_use s) | _ => True end.

(* ================= (D) footprints ================= *)
Inductive loc := LCacheList | LCacheIndex | LRouterHandlers | LRouterNoRoute | LRouterNoAllowed | LRouteHandlers | LTables | LOwnContext (t : nat) | LOwnChain (t : nat).
Inductive lockmode := NoLock | ReadLock | WriteLock.
Record access := { a_loc : loc; a_write : bool; a_lock : lockmode }.

(* the accesses of the request-time actions (after the repairs): *)
Definition acc_cache_get : list access :=     (* Get moves the element to the front: it holds the write lock (F12) *)
  [{| a_loc := LCacheIndex; a_write := false; a_lock := WriteLock |}; {| a_loc := LCacheList; a_write := true; a_lock := WriteLock |}].
Definition acc_cache_set : list access :=
  [{| a_loc := LCacheIndex; a_write := true; a_lock := WriteLock |}; {| a_loc := LCacheList; a_write := true; a_lock := WriteLock |}].
Definition acc_lookup_tables : list access := [{| a_loc := LTables; a_write := false; a_lock := NoLock |}].
Definition acc_assemble (t : nat) : list access :=   (* reads the shared slices, writes only its fresh chain (F11, F13) *)
  [{| a_loc := LRouterHandlers; a_write := false; a_lock := NoLock |}; {| a_loc := LRouteHandlers; a_write := false; a_lock := NoLock |};
   {| a_loc := LRouterNoRoute; a_write := false; a_lock := NoLock |}; {| a_loc := LRouterNoAllowed; a_write := false; a_lock := NoLock |};
   {| a_loc := LOwnChain t; a_write := true; a_lock := NoLock |}].
Definition acc_handler (t : nat) : list access :=
  [{| a_loc := LOwnChain t; a_write := false; a_lock := NoLock |}; {| a_loc := LOwnContext t; a_write := true; a_lock := NoLock |}].
Definition request_accesses (t : nat) : list access :=
  acc_cache_get ++ acc_cache_set ++ acc_lookup_tables ++ acc_assemble t ++ acc_handler t.

Definition loc_eqb (a b : loc) : bool :=
  match a, b with
  | LCacheList, LCacheList | LCacheIndex, LCacheIndex | LRouterHandlers, LRouterHandlers | LRouterNoRoute, LRouterNoRoute
  | LRouterNoAllowed, LRouterNoAllowed | LRouteHandlers, LRouteHandlers | LTables, LTables => true
  | LOwnContext x, LOwnContext y | LOwnChain x, LOwnChain y => Nat.eqb x y
  | _, _ => false
  end.
Definition excl (a : access) : bool := match a_lock a with WriteLock => true | _ => false end.
(* a data race: same location, at least one write, not both under the exclusive lock
   (a read lock only excludes writers that take the write lock) *)
Definition races (a b : access) : bool :=
  loc_eqb (a_loc a) (a_loc b) && (a_write a || a_write b) &&
  negb (excl a && excl b) &&
  negb ((excl a && match a_lock b with ReadLock => negb (a_write b) | _ => false end) ||
        (excl b && match a_lock a with ReadLock => negb (a_write a) | _ => false end)).

(* the legacy accesses, for the refuted witnesses *)
Definition acc_cache_get_legacy : list access :=   (* MoveToFront under RLock *)
  [{| a_loc := LCacheIndex; a_write := false; a_lock := ReadLock |}; {| a_loc := LCacheList; a_write := true; a_lock := ReadLock |}].
Definition acc_assemble_legacy (t : nat) : list access :=   (* writes router fields and shared spare capacity *)
  [{| a_loc := LRouterHandlers; a_write := true; a_lock := NoLock |}; {| a_loc := LRouterNoRoute; a_write := true; a_lock := NoLock |}].
