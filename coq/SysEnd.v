(* SysEnd.v — the remaining end-to-end theorems through the whole-router function.
   "Printable program": sys_build o ss = Ok s, table_of es s, o_intercept o = [], a history h with hist_no_slash h,
   a method with no_slash m, format_path (o_strict o) p = Ok path; s' := sys_run progs hooks s h.
   (0) the bridge: QuickMatch on s' answers (route id AND parameters) like the grammar-level table of the entries;
   (1) C06 end to end: sys_not_allowed / sys_not_found (+ chains), sys_default_405 / sys_default_404 (the response);
   (2) C02 end to end: sys_params (+ sys_params_den: the parameters are a decomposition of the path);
   (3) C13 end to end: sys_total (+ sys_total_history);
   (4) C14 end to end: sys_cache_key_gen / sys_cache_key;
   (5) C11 end to end: quick_spelling / sys_spelling;
   (6) examples by vm_compute. *)
From Coq Require String.
From Rux Require Import Base BaseFacts Str Consts Norm NormFacts Writer WriterFacts Chain ChainFacts Dispatch DispatchFacts
  Reg Rx RxFacts RxParse Pattern Pat PatFacts Cache CacheFacts Table TableFacts PatTable RoundTrip SelectFacts
  Sys SysFacts TableLink RestLookup SysHistory SysMore.

(* ====================================================================== *)
(* (0) the bridge to the grammar-level table                              *)
(* ====================================================================== *)

(* the grammar-level reading of a printable table *)
Definition entries_rs (es : list entry) : list sroute := map entry_sroute es.

(* after any history, caching on or off: the answer of QuickMatch (route id and parameters) is the answer of the
   non-caching grammar-level router built from the entries; no hypothesis on the path or on InterceptAll *)
Lemma sys_quick_build progs hooks o ss s es h m p :
  sys_build o ss = Ok s -> table_of es s -> hist_no_slash h -> no_slash m ->
  fst (quick_match (s_rt (sys_run progs hooks s h)) m p) =
    fst (quick_match (build (opts_off o) (entries_rs es)) m p).
Proof.
  intros Hb Ht Hh Hm.
  destruct (sys_run_invariant progs hooks h s (proj1 (sys_build_coherent o ss s Hb)) Hh) as (Hco & Hnc & _).
  rewrite (proj1 (quick_match_transparent _ m p Hco Hm)), Hnc.
  destruct (sys_build_table o ss s es Hb Ht) as (rt & E & Hnm).
  rewrite (proj1 (quick_nm _ _ m p Hnm)).
  exact (proj1 (string_level_quick (opts_off o) es rt m p (proj1 Ht) E)).
Qed.

Lemma format_rooted strict p path : format_path strict p = Ok path -> rooted path.
Proof. intros H. rewrite format_core in H. inversion H. reflexivity. Qed.

(* a found answer of the non-caching grammar-level router: the direct lookup, or (HEAD only) the GET lookup *)
Lemma quick_build_found o rs m p path i ps :
  o_caching o = false -> o_intercept o = [] -> Forall wf_sroute rs -> no_slash m ->
  format_path (o_strict o) p = Ok path ->
  fst (quick_match (build o rs) m p) = QFound i ps ->
  (spec_select rs m path = Some i /\ fst (match_ (build o rs) m path) = LHit i ps) \/
  (spec_select rs m path = None /\ m = HEAD /\ spec_select rs GET path = Some i /\
   fst (match_ (build o rs) GET path) = LHit i ps).
Proof.
  intros Hc Hint WF Hm Hfp.
  pose proof (format_rooted _ _ _ Hfp) as Hp.
  unfold quick_match, quick_match_gen. cbv zeta. rewrite (build_opts o rs WF), Hint. cbn [nil_b]. rewrite Hfp.
  destruct (match_build o rs m path Hc WF Hm Hp) as [ops1 E1]. rewrite E1.
  destruct (spec_select rs m path) as [i1|].
  - cbn [fst]. intros H. inversion H; subst. left. split; reflexivity.
  - destruct (str_eqb m HEAD) eqn:Eh.
    + apply str_eqb_eq in Eh.
      destruct (match_build o rs GET path Hc WF no_slash_GET Hp) as [ops2 E2]. rewrite E2.
      destruct (spec_select rs GET path) as [i2|].
      * cbn [fst]. intros H. inversion H; subst. right. repeat split; reflexivity.
      * destruct (if o_fallback o then assoc (m ++ fallback_suffix) (stable (build o rs)) else None); [discriminate|].
        destruct (o_na o); [|discriminate].
        destruct (probe_methods (build o rs) any_methods m path []) as [[[[|a al]|]|] rt3]; discriminate.
    + destruct (if o_fallback o then assoc (m ++ fallback_suffix) (stable (build o rs)) else None); [discriminate|].
      destruct (o_na o); [|discriminate].
      destruct (probe_methods (build o rs) any_methods m path []) as [[[[|a al]|]|] rt3]; discriminate.
Qed.

(* ====================================================================== *)
(* (2) C02 end to end: the parameters handed to the handlers              *)
(* ====================================================================== *)
(* what entry e says about the parameters reported with a hit on path: a static entry reports none (nil), a dynamic
   entry exactly the parameters its own pattern assigns on the (normalised) request path *)
Definition entry_params (e : entry) (path : str) (ps : option params) : Prop :=
  match e with
  | EStatic _ _ => ps = None
  | EDyn _ pp => exists l, ps = Some l /\ pat_params (to_pat pp) path = Some l
  end.

Lemma entry_params_of_build o es m path i ps :
  o_caching o = false -> Forall wf_entry es -> no_slash m -> rooted path ->
  spec_select (entries_rs es) m path = Some i ->
  fst (match_ (build o (entries_rs es)) m path) = LHit i ps ->
  exists e, nth_error es i = Some e /\ entry_params e path ps.
Proof.
  intros Hc WF Hm Hp Hsel Hq. unfold entries_rs in *.
  destruct (spec_select_some (map entry_sroute es) m path i Hsel) as (r & Hr & _).
  rewrite nth_error_map in Hr.
  destruct (nth_error es i) as [e|] eqn:Ee; [|discriminate]. cbn [option_map] in Hr. inversion Hr; subst r.
  exists e. split; [reflexivity|].
  pose proof (build_lookup_params o (map entry_sroute es) m path i (entry_sroute e) Hc (wf_entries_sroutes es WF) Hm Hp Hsel) as HB.
  rewrite nth_error_map, Ee in HB. specialize (HB eq_refl).
  destruct e as [ms sp|ms pp]; cbn [entry_sroute s_pat entry_pat entry_params] in *.
  - rewrite HB in Hq. inversion Hq. reflexivity.
  - destruct HB as (l & E & Hl). rewrite E in Hq. inversion Hq. exists l. split; [reflexivity|exact Hl].
Qed.

(* from the answer of QuickMatch: whatever route id and parameters QuickMatch reports on the router after any history,
   entry i of the table exists and the parameters are those of its pattern *)
Theorem sys_params_quick progs hooks o ss s es h m p path i ps :
  sys_build o ss = Ok s -> table_of es s -> o_intercept o = [] ->
  hist_no_slash h -> no_slash m -> format_path (o_strict o) p = Ok path ->
  fst (quick_match (s_rt (sys_run progs hooks s h)) m p) = QFound i ps ->
  exists e, nth_error es i = Some e /\ entry_params e path ps.
Proof.
  intros Hb Ht Hi Hh Hm Hfp Hq.
  rewrite (sys_quick_build progs hooks o ss s es h m p Hb Ht Hh Hm) in Hq.
  pose proof (format_rooted _ _ _ Hfp) as Hp.
  destruct (quick_build_found (opts_off o) (entries_rs es) m p path i ps eq_refl Hi
              (wf_entries_sroutes es (proj1 Ht)) Hm Hfp Hq) as [[Hs Hl]|(_ & _ & Hs & Hl)].
  - exact (entry_params_of_build (opts_off o) es m path i ps eq_refl (proj1 Ht) Hm Hp Hs Hl).
  - exact (entry_params_of_build (opts_off o) es GET path i ps eq_refl (proj1 Ht) no_slash_GET Hp Hs Hl).
Qed.

(* C02 end to end, in the situation of sys_chain_selected_gen: the ladder selects entry i; then the request is
   dispatched to route i of the program text with parameters opt_params ps, where ps = nil for a static entry and
   ps = the parameters of the entry's pattern on the normalised path for a dynamic one *)
Theorem sys_params progs hooks o ss s es h m p path i sc pooled :
  sys_build o ss = Ok s -> table_of es s -> o_intercept o = [] ->
  hist_no_slash h -> no_slash m -> format_path (o_strict o) p = Ok path ->
  ladder o (map entry_sroute es) m path = QFound i None ->
  let s' := sys_run progs hooks s h in
  exists r ps e,
    nth_error (den_block (o_strict o) [] [] ss) i = Some r /\
    nth_error es i = Some e /\
    fst (quick_match (s_rt s') m p) = QFound i ps /\
    entry_params e path ps /\
    fst (sys_serve progs hooks s' m p sc pooled) =
      Some (handle_request (sys_cfg progs hooks s) (str_eqb m OPTIONS) (route_target progs r (opt_params ps) p)
              (p_x (ctx_init sc pooled))).
Proof.
  intros Hb Ht Hi Hh Hm Hfp Hl s'.
  destruct (sys_chain_selected_gen progs hooks o ss s es h m p path i sc pooled Hb Ht Hi Hh Hm Hfp Hl)
    as (r & ps & Hr & Hq & Hs & _). fold s' in Hq, Hs.
  destruct (sys_params_quick progs hooks o ss s es h m p path i ps Hb Ht Hi Hh Hm Hfp Hq) as (e & He & Hp).
  exists r, ps, e. auto 10.
Qed.

(* ... and what C02_params says about them: the values are a decomposition of the path along the pattern *)
Lemma printable_names_nodup pp : printable pp = true -> NoDup (pat_names (to_pat pp)).
Proof.
  intros H. destruct (printable_sound pp H) as (_ & _ & Hnd).
  rewrite pat_names_to_pat. unfold pnames in *. rewrite vars_flat. exact Hnd.
Qed.

Theorem sys_params_den progs hooks o ss s es h m p path i ms pp l :
  sys_build o ss = Ok s -> table_of es s -> o_intercept o = [] ->
  hist_no_slash h -> no_slash m -> format_path (o_strict o) p = Ok path ->
  fst (quick_match (s_rt (sys_run progs hooks s h)) m p) = QFound i (Some l) ->
  nth_error es i = Some (EDyn ms pp) ->
  exists vs, pat_den (to_pat pp) path vs /\ List.length vs = List.length (pat_names (to_pat pp)) /\
    forall j n, nth_error (pat_names (to_pat pp)) j = Some n -> assoc n l = Some (nth j vs []).
Proof.
  intros Hb Ht Hi Hh Hm Hfp Hq He.
  destruct (sys_params_quick progs hooks o ss s es h m p path i (Some l) Hb Ht Hi Hh Hm Hfp Hq) as (e & He' & Hp).
  rewrite He in He'. inversion He'; subst e. cbn [entry_params] in Hp. destruct Hp as (l' & El & Hl).
  inversion El; subst l'.
  assert (Hwf : wf_entry (EDyn ms pp)).
  { pose proof (proj1 Ht) as WF. rewrite Forall_forall in WF. apply WF. eapply nth_error_In. exact He. }
  unfold wf_entry, wf_entryb in Hwf. apply andb_true_iff in Hwf. destruct Hwf as [_ Hpr].
  exact (pat_params_sound (to_pat pp) path l (pat_ok_to_pat pp) (printable_names_nodup pp Hpr) Hl).
Qed.

(* ====================================================================== *)
(* (1) C06 end to end: 405 and 404                                        *)
(* ====================================================================== *)
Lemma qsel_not_found_like q q' : qsel q = q' -> (forall i ps, q' <> QFound i ps) -> q = q'.
Proof. intros H Hn. destruct q; cbn [qsel] in H; try exact H. exfalso. exact (Hn _ _ (eq_sym H)). Qed.

(* the ladder answers "not allowed": after any history, caching on or off, QuickMatch says so with the same allowed
   set, the request is dispatched to the NotAllowed target, and the chain is: the global middleware (top-level Use
   statements), then the custom NotAllowed handlers if the program installed any, else the built-in 405 handler *)
Theorem sys_not_allowed progs hooks o ss s es h m p path al sc pooled :
  sys_build o ss = Ok s -> table_of es s -> o_intercept o = [] ->
  hist_no_slash h -> no_slash m -> format_path (o_strict o) p = Ok path ->
  ladder o (map entry_sroute es) m path = QNotAllowed al ->
  let s' := sys_run progs hooks s h in
  fst (quick_match (s_rt s') m p) = QNotAllowed al /\
  fst (sys_serve progs hooks s' m p sc pooled) =
    Some (handle_request (sys_cfg progs hooks s) (str_eqb m OPTIONS) (TNotAllowed al (map progs (s_noallowed s)))
            (p_x (ctx_init sc pooled))) /\
  forall is_opt x,
    fst (assemble (sys_cfg progs hooks s) is_opt (TNotAllowed al (map progs (s_noallowed s))) x) =
      map progs (den_globals ss) ++
      (match s_noallowed s with [] => [default_405 is_opt al] | hs => map progs hs end).
Proof.
  intros Hb Ht Hi Hh Hm Hfp Hl s'.
  pose proof (sys_ladder_gen progs hooks o ss s es h m p path Hb Ht Hi Hh Hm Hfp) as Hq. fold s' in Hq. rewrite Hl in Hq.
  apply qsel_not_found_like in Hq; [|discriminate].
  destruct (sys_run_invariant progs hooks h s (proj1 (sys_build_coherent o ss s Hb)) Hh) as (_ & _ & I2 & I3 & I4 & I5).
  fold s' in I2, I3, I4, I5.
  split; [exact Hq|]. split.
  - rewrite sys_serve_fst, Hq, (sys_target_cong progs s s' _ p I2 I4 I5), (sys_cfg_cong progs hooks s s' I3). reflexivity.
  - intros is_opt x. cbn [assemble fst sys_cfg globals]. rewrite (sys_build_globals o ss s Hb).
    destruct (s_noallowed s); reflexivity.
Qed.

Theorem sys_not_found progs hooks o ss s es h m p path sc pooled :
  sys_build o ss = Ok s -> table_of es s -> o_intercept o = [] ->
  hist_no_slash h -> no_slash m -> format_path (o_strict o) p = Ok path ->
  ladder o (map entry_sroute es) m path = QNotFound ->
  let s' := sys_run progs hooks s h in
  fst (quick_match (s_rt s') m p) = QNotFound /\
  fst (sys_serve progs hooks s' m p sc pooled) =
    Some (handle_request (sys_cfg progs hooks s) (str_eqb m OPTIONS) (TNotFound (map progs (s_noroute s)))
            (p_x (ctx_init sc pooled))) /\
  forall is_opt x,
    fst (assemble (sys_cfg progs hooks s) is_opt (TNotFound (map progs (s_noroute s))) x) =
      map progs (den_globals ss) ++
      (match s_noroute s with [] => [default_404] | hs => map progs hs end).
Proof.
  intros Hb Ht Hi Hh Hm Hfp Hl s'.
  pose proof (sys_ladder_gen progs hooks o ss s es h m p path Hb Ht Hi Hh Hm Hfp) as Hq. fold s' in Hq. rewrite Hl in Hq.
  apply qsel_not_found_like in Hq; [|discriminate].
  destruct (sys_run_invariant progs hooks h s (proj1 (sys_build_coherent o ss s Hb)) Hh) as (_ & _ & I2 & I3 & I4 & I5).
  fold s' in I2, I3, I4, I5.
  split; [exact Hq|]. split.
  - rewrite sys_serve_fst, Hq, (sys_target_cong progs s s' _ p I2 I4 I5), (sys_cfg_cong progs hooks s s' I3). reflexivity.
  - intros is_opt x. cbn [assemble fst sys_cfg globals]. rewrite (sys_build_globals o ss s Hb).
    destruct (s_noroute s); reflexivity.
Qed.

(* ---------- the response of the built-in handlers ---------- *)
Open Scope Z_scope.

(* the context every request starts from (Context.Init on whatever the pool returned) *)
Definition x_init (sc : list nat) : xctx :=
  {| trace := []; w := winit sc; data := []; Dispatch.params := []; errors := []; resp_own := true; req_own := true |}.
Lemma ctx_init_x sc pooled : p_x (ctx_init sc pooled) = x_init sc.
Proof. reflexivity. Qed.

(* the effects of the built-in 405 handler (C06_default_405 / C06_default_405_options): the Allow header with the
   allowed methods sorted and joined by ", ", then http.Error(405) - or status 200 for an OPTIONS request *)
Definition effs_405 (is_opt : bool) (al : list str) : list eff :=
  [EW (WSetHeader hdr_allow (join comma_sp (sort_strs al)));
   if is_opt then EW (WSetStatus 200) else EW (WHttpError msg_405 405)].
Definition wb_405 (is_opt : bool) (al : list str) : wb eff := {| pre := effs_405 is_opt al; calls := false; post := [] |}.
Lemma default_405_wb is_opt al : default_405 is_opt al = prog eff (wb_405 is_opt al).
Proof. destruct is_opt; reflexivity. Qed.
Lemma default_405_effs is_opt al : default_405 is_opt al = effs eff (effs_405 is_opt al).
Proof. destruct is_opt; reflexivity. Qed.

(* what the underlying ResponseWriter receives for http.Error(msg, code) on a fresh writer with short-write script sc *)
Definition error_log (sc : list nat) (msg : str) (code : Z) : list wev :=
  [WH code; W (fst (accept sc (msg ++ [newline])))].

Lemma error_commit sc msg code : 0 < code ->
  status (ensure (wstep (winit sc) (WHttpError msg code))) = code /\
  log (ensure (wstep (winit sc) (WHttpError msg code))) = error_log sc msg code.
Proof.
  intros Hc.
  assert (E1 : (code >? 0) && negb (0 =? code) = true).
  { apply andb_true_iff. split; [apply Z.gtb_lt; lia|]. apply negb_true_iff, Z.eqb_neq. lia. }
  assert (E2 : (code =? 0) = false) by (apply Z.eqb_neq; lia).
  unfold wstep, wstep_gen, write_header. cbn [winit status length script log obs]. rewrite E1.
  set (w0 := {| status := code; length := -1; script := sc; log := []; obs := [] |}).
  destruct (ensure_uncommitted w0 eq_refl) as (_ & Hlog & Hsc & Hlen & Hst).
  cbn [w0 status log script app] in Hlog, Hsc, Hst. rewrite E2 in Hlog, Hst.
  unfold write, error_log. rewrite Hsc.
  destruct (accept sc (msg ++ [newline])) as [acc sc']. cbn [fst].
  rewrite ensure_written; [cbn [status log]; rewrite Hst, Hlog; split; reflexivity|].
  apply nonneg_written. cbn [length]. rewrite Hlen. lia.
Qed.

(* no custom NotAllowed handlers, no global middleware, no OnError hook (OnPanic is irrelevant: nothing panics): the
   request completes, exactly the built-in handler ran, and what is committed is status 405 with the body
   "Method not allowed\n" (200 and no body for OPTIONS), after the Allow header was set to the sorted allowed methods *)
Theorem sys_default_405 progs hooks o ss s es h m p path al sc pooled :
  sys_build o ss = Ok s -> table_of es s -> o_intercept o = [] ->
  hist_no_slash h -> no_slash m -> format_path (o_strict o) p = Ok path ->
  ladder o (map entry_sroute es) m path = QNotAllowed al ->
  s_noallowed s = [] -> den_globals ss = [] -> snd hooks = None ->
  let s' := sys_run progs hooks s h in
  let is_opt := str_eqb m OPTIONS in
  exists x,
    fst (sys_serve progs hooks s' m p sc pooled) = Some (Done x [0%nat]) /\
    x = final_commit (apply_all xctx eff apply_eff (effs_405 is_opt al)
                        (with_data [(k_allowed, DStrs al)] (x_init sc))) /\
    status (w x) = (if is_opt then 200 else 405) /\
    log (w x) = (if is_opt then [WH 200] else error_log sc msg_405 405) /\
    data x = [(k_allowed, DStrs al)] /\ trace x = [] /\ errors x = [].
Proof.
  intros Hb Ht Hi Hh Hm Hfp Hl Hna Hg Hho s' is_opt.
  destruct (sys_not_allowed progs hooks o ss s es h m p path al sc pooled Hb Ht Hi Hh Hm Hfp Hl) as (_ & Hs & Hc).
  fold s' in Hs. rewrite Hs.
  rewrite (handle_request_onion _ _ _ _ [wb_405 is_opt al]).
  - eexists. split; [reflexivity|].
    rewrite Hna. cbn [map assemble snd onion wb_405 pre post calls app List.length seq]. rewrite ctx_init_x.
    split; [reflexivity|]. fold is_opt.
    destruct is_opt.
    + vm_compute. auto 10.
    + unfold apply_all, effs_405.
      cbn [app fold_left apply_eff final_commit with_w with_data w data trace errors x_init data_set].
      change (wstep (winit sc) (WSetHeader hdr_allow (join comma_sp (sort_strs al)))) with (winit sc).
      destruct (error_commit sc msg_405 405 ltac:(lia)) as [E1 E2]. rewrite E1, E2. auto 10.
  - exact Hho.
  - rewrite Hc, Hg, Hna. cbn [map app]. rewrite default_405_wb. reflexivity.
  - cbn [List.length]. lia.
Qed.

Definition effs_404 : list eff := [EW (WHttpError msg_404 404)].

Theorem sys_default_404 progs hooks o ss s es h m p path sc pooled :
  sys_build o ss = Ok s -> table_of es s -> o_intercept o = [] ->
  hist_no_slash h -> no_slash m -> format_path (o_strict o) p = Ok path ->
  ladder o (map entry_sroute es) m path = QNotFound ->
  s_noroute s = [] -> den_globals ss = [] -> snd hooks = None ->
  let s' := sys_run progs hooks s h in
  exists x,
    fst (sys_serve progs hooks s' m p sc pooled) = Some (Done x [0%nat]) /\
    x = final_commit (apply_all xctx eff apply_eff effs_404 (x_init sc)) /\
    status (w x) = 404 /\
    log (w x) = error_log sc msg_404 404 /\
    data x = [] /\ trace x = [] /\ errors x = [].
Proof.
  intros Hb Ht Hi Hh Hm Hfp Hl Hnr Hg Hho s'.
  destruct (sys_not_found progs hooks o ss s es h m p path sc pooled Hb Ht Hi Hh Hm Hfp Hl) as (_ & Hs & Hc).
  fold s' in Hs. rewrite Hs.
  rewrite (handle_request_onion _ _ _ _ [wb_404]).
  - eexists. split; [reflexivity|].
    rewrite Hnr. cbn [map assemble snd onion wb_404 pre post calls app List.length seq]. rewrite ctx_init_x.
    split; [reflexivity|].
    unfold apply_all, effs_404.
    cbn [app fold_left apply_eff final_commit with_w with_data w data trace errors x_init].
    destruct (error_commit sc msg_404 404 ltac:(lia)) as [E1 E2]. rewrite E1, E2. auto 10.
  - exact Hho.
  - rewrite Hc, Hg, Hnr. reflexivity.
  - cbn [List.length]. lia.
Qed.
Close Scope Z_scope.

(* ====================================================================== *)
(* (3) C13 end to end: every request is answered                          *)
(* ====================================================================== *)
Lemma ladder_no_panic o rs m path : ladder o rs m path <> QPanic /\ ladder o rs m path <> QUnsup.
Proof.
  unfold ladder.
  destruct (spec_select rs m path); [split; discriminate|].
  destruct (if str_eqb m HEAD then spec_select rs GET path else None); [split; discriminate|].
  destruct (if o_fallback o then fallback_route rs m else None); [split; discriminate|].
  destruct (o_na o); [|split; discriminate].
  destruct (allowed_methods rs m path); split; discriminate.
Qed.

(* for a printable program, after any history, every request - any '/'-free method, ANY path string (empty, white
   space, anything: format_path is total, C11_total) - is dispatched: the lookup never panics, never meets an
   unsupported expression, and never reports a route id outside the table *)
Theorem sys_total progs hooks o ss s es h m p sc pooled :
  sys_build o ss = Ok s -> table_of es s -> o_intercept o = [] ->
  hist_no_slash h -> no_slash m ->
  fst (sys_serve progs hooks (sys_run progs hooks s h) m p sc pooled) <> None.
Proof.
  intros Hb Ht Hi Hh Hm. set (s' := sys_run progs hooks s h).
  destruct (format_total (o_strict o) p) as [path Hfp].
  pose proof (sys_ladder_gen progs hooks o ss s es h m p path Hb Ht Hi Hh Hm Hfp) as Hq. fold s' in Hq.
  destruct (sys_run_invariant progs hooks h s (proj1 (sys_build_coherent o ss s Hb)) Hh) as (_ & _ & I2 & _ & I4 & I5).
  fold s' in I2, I4, I5.
  rewrite sys_serve_fst, (sys_target_cong progs s s' _ p I2 I4 I5).
  destruct (ladder_no_panic o (map entry_sroute es) m path) as [Hn1 Hn2].
  destruct (fst (quick_match (s_rt s') m p)) as [rid ps|rid|al| | |]; cbn [qsel sys_target] in *;
    try discriminate; try congruence.
  - symmetry in Hq. apply ladder_found_lt in Hq. rewrite map_length, (table_of_length es s Ht) in Hq.
    destruct (nth_error (s_routes s) rid) eqn:Er; [discriminate|]. apply nth_error_None in Er. lia.
  - symmetry in Hq. apply ladder_fallback_lt in Hq. rewrite map_length, (table_of_length es s Ht) in Hq.
    destruct (nth_error (s_routes s) rid) eqn:Er; [discriminate|]. apply nth_error_None in Er. lia.
Qed.

(* the same for all the requests of a history *)
Theorem sys_total_history progs hooks o ss s es h :
  sys_build o ss = Ok s -> table_of es s -> o_intercept o = [] -> hist_no_slash h ->
  Forall (fun r => r <> None) (sys_outcomes progs hooks s h).
Proof.
  intros Hb Ht Hi Hh. rewrite (sys_outcomes_alone progs hooks o ss s h Hb Hh).
  apply Forall_map. unfold hist_no_slash in Hh. eapply Forall_impl; [|exact Hh].
  intros [[[m p] sc] pooled] Hm. cbn [hreq_method fst] in Hm. cbn [sys_alone].
  exact (sys_total progs hooks o ss s es [] m p sc fresh_ctx Hb Ht Hi (Forall_nil _) Hm).
Qed.

(* ====================================================================== *)
(* (5) C11 end to end: spellings with the same normal form                *)
(* ====================================================================== *)
(* ANY router (built or not, cache in any state, InterceptAll or not): the lookup depends on the request path only
   through its normal form - the answer AND the resulting router (cache included) are the same *)
Theorem quick_spelling rt m p1 p2 :
  format_path (o_strict (ropts rt)) p1 = format_path (o_strict (ropts rt)) p2 ->
  quick_match rt m p1 = quick_match rt m p2.
Proof. intros H. unfold quick_match, quick_match_gen. cbv zeta. rewrite H. reflexivity. Qed.

(* InterceptAll: on a router with a non-empty intercept path the request path plays no role at all - every request is looked up
   as the intercept path, which itself goes through formatPath like any request path (quick_match_gen true) *)
Theorem quick_intercept rt m p1 p2 :
  o_intercept (ropts rt) <> [] -> quick_match rt m p1 = quick_match rt m p2.
Proof.
  intros H. unfold quick_match, quick_match_gen. cbv zeta.
  destruct (o_intercept (ropts rt)) as [|c q]; [congruence|]. cbn [nil_b]. reflexivity.
Qed.
(* (that InterceptAll(q) answers like the request q on the router without the option is read off quick_match_gen - both go through
   format_path (o_strict _) q and the same match_ - and is exercised by the C11 flavour "intercept"; it is not a theorem here) *)

(* the options of a router never change by lookups *)
Lemma match_ropts rt m p : ropts (snd (match_ rt m p)) = ropts rt.
Proof.
  destruct (match_cases rt m p) as [(rid & Ea & Em)|[(Ea & Ec & rid & ps & Ef & Em)|(Ea & _ & Em)]];
    rewrite Em; reflexivity.
Qed.
Lemma probe_ropts m path : forall ms rt acc, ropts (snd (probe_methods rt ms m path acc)) = ropts rt.
Proof.
  induction ms as [|m' rest IH]; intros rt acc; cbn [probe_methods]; [reflexivity|].
  destruct (str_eqb m' m); [apply IH|].
  pose proof (match_ropts rt m' path) as Hk. destruct (match_ rt m' path) as [r rt1]. cbn [snd] in Hk.
  destruct r; cbn [snd]; rewrite ?IH; exact Hk.
Qed.
Lemma quick_ropts rt m p : ropts (snd (quick_match rt m p)) = ropts rt.
Proof.
  unfold quick_match, quick_match_gen. cbv zeta.
  destruct (if nil_b (o_intercept (ropts rt)) then format_path (o_strict (ropts rt)) p
            else format_path (o_strict (ropts rt)) (o_intercept (ropts rt))) as [path|]; [|reflexivity].
  pose proof (match_ropts rt m path) as H1. destruct (match_ rt m path) as [r1 rt1]. cbn [snd] in H1.
  destruct r1; cbn [snd]; try exact H1.
  assert (H2 : ropts (snd (if str_eqb m HEAD then match_ rt1 GET path else (LNone, rt1))) = ropts rt1).
  { destruct (str_eqb m HEAD); [apply match_ropts|reflexivity]. }
  destruct (if str_eqb m HEAD then match_ rt1 GET path else (LNone, rt1)) as [r2 rt2]. cbn [snd] in H2.
  destruct r2; cbn [snd]; try congruence.
  destruct (if o_fallback (ropts rt) then assoc (m ++ fallback_suffix) (stable rt2) else None); cbn [snd]; [congruence|].
  destruct (o_na (ropts rt)); cbn [snd]; [|congruence].
  pose proof (probe_ropts m path any_methods rt2 []) as H3.
  destruct (probe_methods rt2 any_methods m path []) as [[[[|a al]|]|] rt3]; cbn [snd] in *; congruence.
Qed.
Lemma sys_run_ropts progs hooks : forall h s, ropts (s_rt (sys_run progs hooks s h)) = ropts (s_rt s).
Proof.
  induction h as [|r h IH]; intros s; cbn [sys_run]; [reflexivity|].
  rewrite IH, sys_serve_req_snd. cbn [set_rt s_rt]. apply quick_ropts.
Qed.
Lemma sys_build_ropts progs hooks o ss s h : sys_build o ss = Ok s -> ropts (s_rt (sys_run progs hooks s h)) = o.
Proof. intros Hb. rewrite sys_run_ropts. exact (proj1 (proj2 (sys_build_sigs o ss s Hb))). Qed.

(* on a router built from a registration program, after any history (no hypothesis on the program, the history or
   the method): two request paths with the same normal form are looked up alike, and leave the same router behind *)
Theorem sys_spelling progs hooks o ss s h m p1 p2 :
  sys_build o ss = Ok s ->
  format_path (o_strict o) p1 = format_path (o_strict o) p2 ->
  let s' := sys_run progs hooks s h in
  quick_match (s_rt s') m p1 = quick_match (s_rt s') m p2 /\
  forall sc pooled, snd (sys_serve progs hooks s' m p1 sc pooled) = snd (sys_serve progs hooks s' m p2 sc pooled).
Proof.
  intros Hb Hf s'.
  assert (E : quick_match (s_rt s') m p1 = quick_match (s_rt s') m p2).
  { apply quick_spelling. unfold s'. rewrite (sys_build_ropts progs hooks o ss s h Hb). exact Hf. }
  split; [exact E|]. intros sc pooled. rewrite !sys_serve_snd, E. reflexivity.
Qed.

(* the form TASK asks for *)
Corollary sys_spelling_fst progs hooks o ss s h m p1 p2 :
  sys_build o ss = Ok s ->
  format_path (o_strict o) p1 = format_path (o_strict o) p2 ->
  fst (quick_match (s_rt (sys_run progs hooks s h)) m p1) = fst (quick_match (s_rt (sys_run progs hooks s h)) m p2).
Proof. intros Hb Hf. rewrite (proj1 (sys_spelling progs hooks o ss s h m p1 p2 Hb Hf)). reflexivity. Qed.

(* ====================================================================== *)
(* (4) C14 end to end: the cache key                                      *)
(* ====================================================================== *)
(* the LRU invariant of the route cache: no key twice, at most o_cap entries *)
Definition cache_inv (rt : router) : Prop := ainv (nat * params) (o_cap (ropts rt)) (cache rt).

Lemma match_cache_inv rt m path : cache_inv rt -> cache_inv (snd (match_ rt m path)).
Proof.
  unfold cache_inv. intros H. rewrite match_ropts. unfold match_.
  destruct (assoc (m ++ path) (stable rt)) as [rid|]; [exact H|].
  destruct (o_caching (ropts rt)).
  - pose proof (aget_inv (nat * params) _ (cache rt) (m ++ path) H) as Hg.
    destruct (aget (nat * params) (cache rt) (m ++ path)) as [c1 hit]. cbn [fst] in Hg.
    destruct hit as [[rid ps]|]; [exact Hg|].
    destruct (dyn_match rt m path) as [|rid [ps|]| |]; cbn [snd set_cache cache]; try exact Hg.
    apply aset_inv. exact Hg.
  - destruct (dyn_match rt m path) as [|rid [ps|]| |]; exact H.
Qed.

Lemma probe_cache_inv m path : forall ms rt acc, cache_inv rt -> cache_inv (snd (probe_methods rt ms m path acc)).
Proof.
  induction ms as [|m' rest IH]; intros rt acc H; cbn [probe_methods]; [exact H|].
  destruct (str_eqb m' m); [apply IH; exact H|].
  pose proof (match_cache_inv rt m' path H) as Hk. destruct (match_ rt m' path) as [r rt1]. cbn [snd] in Hk.
  destruct r; cbn [snd]; try (apply IH); exact Hk.
Qed.

Lemma quick_cache_inv rt m p : cache_inv rt -> cache_inv (snd (quick_match rt m p)).
Proof.
  intros H. unfold quick_match, quick_match_gen. cbv zeta.
  destruct (if nil_b (o_intercept (ropts rt)) then format_path (o_strict (ropts rt)) p
            else format_path (o_strict (ropts rt)) (o_intercept (ropts rt))) as [path|]; [|exact H].
  pose proof (match_cache_inv rt m path H) as H1. destruct (match_ rt m path) as [r1 rt1]. cbn [snd] in H1.
  destruct r1; cbn [snd]; try exact H1.
  assert (H2 : cache_inv (snd (if str_eqb m HEAD then match_ rt1 GET path else (LNone, rt1)))).
  { destruct (str_eqb m HEAD); [apply match_cache_inv; exact H1|exact H1]. }
  destruct (if str_eqb m HEAD then match_ rt1 GET path else (LNone, rt1)) as [r2 rt2]. cbn [snd] in H2.
  destruct r2; cbn [snd]; try exact H2.
  destruct (if o_fallback (ropts rt) then assoc (m ++ fallback_suffix) (stable rt2) else None); cbn [snd]; [exact H2|].
  destruct (o_na (ropts rt)); cbn [snd]; [|exact H2].
  pose proof (probe_cache_inv m path any_methods rt2 [] H2) as H3.
  destruct (probe_methods rt2 any_methods m path []) as [[[[|a al]|]|] rt3]; cbn [snd] in *; exact H3.
Qed.

(* serving any history (no hypothesis on the methods) keeps the invariant *)
Lemma sys_run_cache_inv progs hooks : forall h s, cache_inv (s_rt s) -> cache_inv (s_rt (sys_run progs hooks s h)).
Proof.
  induction h as [|r h IH]; intros s H; cbn [sys_run]; [exact H|].
  apply IH. rewrite sys_serve_req_snd. cbn [set_rt s_rt]. apply quick_cache_inv. exact H.
Qed.

Lemma sys_build_cache_inv o ss s : sys_build o ss = Ok s -> cache_inv (s_rt s).
Proof.
  intros Hb. unfold cache_inv. rewrite (proj2 (sys_build_coherent o ss s Hb)). apply ainv_nil.
Qed.

(* one lookup answered by a dynamic route (from the tiers or from the cache): the key of the lookup that hit - the
   request method, or GET when a HEAD request was answered by the GET route - is the most recent entry afterwards *)
Lemma quick_cache_key rt m p path i ps :
  o_intercept (ropts rt) = [] -> format_path (o_strict (ropts rt)) p = Ok path ->
  o_caching (ropts rt) = true -> 1 <= o_cap (ropts rt) -> cache_inv rt ->
  fst (quick_match rt m p) = QFound i (Some ps) ->
  exists m' rest,
    ((m' = m /\ fst (match_ rt m path) = LHit i (Some ps)) \/
     (m' = GET /\ m = HEAD /\ fst (match_ rt m path) = LNone)) /\
    cache (snd (quick_match rt m p)) = (m' ++ path, (i, ps)) :: rest.
Proof.
  intros Hi Hfp Hc Hcap Hinv.
  unfold quick_match, quick_match_gen. cbv zeta. rewrite Hi. cbn [nil_b]. rewrite Hfp.
  pose proof (match_ropts rt m path) as Ho1. pose proof (match_cache_inv rt m path Hinv) as Hinv1.
  pose proof (dynamic_match_cached rt m path) as HD.
  assert (Ha : forall rid, assoc (m ++ path) (stable rt) = Some rid -> fst (match_ rt m path) = LHit rid None).
  { intros rid E. unfold match_. rewrite E. reflexivity. }
  destruct (match_ rt m path) as [r1 rt1]. cbn [fst snd] in *.
  destruct r1 as [|rid1 ps1| |]; cbn [fst snd]; try discriminate.
  - (* the direct lookup missed *)
    destruct (str_eqb m HEAD) eqn:Eh.
    + apply str_eqb_eq in Eh.
      pose proof (dynamic_match_cached rt1 GET path) as HD2.
      assert (Ha2 : forall rid, assoc (GET ++ path) (stable rt1) = Some rid -> fst (match_ rt1 GET path) = LHit rid None).
      { intros rid E. unfold match_. rewrite E. reflexivity. }
      destruct (match_ rt1 GET path) as [r2 rt2]. cbn [fst snd] in *.
      destruct r2 as [|rid2 ps2| |]; cbn [fst snd]; try discriminate.
      * destruct (if o_fallback (ropts rt) then assoc (m ++ fallback_suffix) (stable rt2) else None); [discriminate|].
        destruct (o_na (ropts rt)); [|discriminate].
        destruct (probe_methods rt2 any_methods m path []) as [[[[|a al]|]|] rt3]; discriminate.
      * intros H. inversion H; subst rid2 ps2.
        destruct (assoc (GET ++ path) (stable rt1)) as [rid|] eqn:Es; [specialize (Ha2 rid eq_refl); discriminate|].
        destruct (HD2 i ps) as [rest Hr];
          [rewrite Ho1; exact Hc|rewrite Ho1; exact Hcap|exact Hinv1|reflexivity|reflexivity|].
        exists GET, rest. split; [right; auto|exact Hr].
    + destruct (if o_fallback (ropts rt) then assoc (m ++ fallback_suffix) (stable rt1) else None); [discriminate|].
      destruct (o_na (ropts rt)); [|discriminate].
      destruct (probe_methods rt1 any_methods m path []) as [[[[|a al]|]|] rt3]; discriminate.
  - (* the direct lookup hit *)
    intros H. inversion H; subst rid1 ps1.
    destruct (assoc (m ++ path) (stable rt)) as [rid|] eqn:Es; [specialize (Ha rid eq_refl); discriminate|].
    destruct (HD i ps) as [rest Hr]; [exact Hc|exact Hcap|exact Hinv|reflexivity|reflexivity|].
    exists m, rest. split; [left; auto|exact Hr].
Qed.

(* C14 end to end, for ANY registration program: caching on, capacity >= 1, after any history; a request that is
   answered by a dynamic route leaves its key as the most recent key of the cache of the new router, and the cache
   within its bounds (no key twice, at most o_cap keys). The key is m ++ path, except for a HEAD request answered by
   the GET route, where it is GET ++ path (the lookup that hit). *)
Theorem sys_cache_key_gen progs hooks o ss s h m p path i ps sc pooled :
  sys_build o ss = Ok s -> o_intercept o = [] -> format_path (o_strict o) p = Ok path ->
  o_caching o = true -> 1 <= o_cap o ->
  let s' := sys_run progs hooks s h in
  fst (quick_match (s_rt s') m p) = QFound i (Some ps) ->
  let c := cache (s_rt (snd (sys_serve progs hooks s' m p sc pooled))) in
  (exists m' rest,
     ((m' = m /\ fst (match_ (s_rt s') m path) = LHit i (Some ps)) \/
      (m' = GET /\ m = HEAD /\ fst (match_ (s_rt s') m path) = LNone)) /\
     c = (m' ++ path, (i, ps)) :: rest /\ akeys (nat * params) c = (m' ++ path) :: akeys (nat * params) rest) /\
  NoDup (akeys (nat * params) c) /\ List.length c <= o_cap o.
Proof.
  intros Hb Hi Hfp Hc Hcap s' Hq c.
  pose proof (sys_build_ropts progs hooks o ss s h Hb) as Ho. fold s' in Ho.
  pose proof (sys_run_cache_inv progs hooks h s (sys_build_cache_inv o ss s Hb)) as Hinv. fold s' in Hinv.
  assert (Ec : c = cache (snd (quick_match (s_rt s') m p))) by (unfold c; rewrite sys_serve_snd; reflexivity).
  split.
  - destruct (quick_cache_key (s_rt s') m p path i ps) as (m' & rest & Hm' & Hr); try (rewrite Ho; assumption); try assumption.
    exists m', rest. split; [exact Hm'|]. rewrite Ec, Hr. split; reflexivity.
  - pose proof (quick_cache_inv (s_rt s') m p Hinv) as H2. unfold cache_inv in H2.
    rewrite quick_ropts, Ho, <- Ec in H2. exact H2.
Qed.

(* when the request method is not HEAD the key is the request's own *)
Corollary sys_cache_key_own progs hooks o ss s h m p path i ps sc pooled :
  sys_build o ss = Ok s -> o_intercept o = [] -> format_path (o_strict o) p = Ok path ->
  o_caching o = true -> 1 <= o_cap o -> m <> HEAD ->
  let s' := sys_run progs hooks s h in
  fst (quick_match (s_rt s') m p) = QFound i (Some ps) ->
  let c := cache (s_rt (snd (sys_serve progs hooks s' m p sc pooled))) in
  (exists rest, akeys (nat * params) c = (m ++ path) :: rest) /\ List.length c <= o_cap o.
Proof.
  intros Hb Hi Hfp Hc Hcap Hm s' Hq c.
  destruct (sys_cache_key_gen progs hooks o ss s h m p path i ps sc pooled Hb Hi Hfp Hc Hcap Hq)
    as ((m' & rest & Hm' & _ & Hk) & _ & Hlen).
  split; [|exact Hlen]. destruct Hm' as [[-> _]|(_ & E & _)]; [|contradiction].
  eexists. exact Hk.
Qed.

(* for printable programs the key is determined by the table: a single lookup on the router after any history answers
   like the grammar-level table, so "the direct lookup hit" is "the rule selects a route for the request's own method" *)
Lemma sys_match_build progs hooks o ss s es h m path :
  sys_build o ss = Ok s -> table_of es s -> hist_no_slash h -> no_slash m -> rooted path ->
  fst (match_ (s_rt (sys_run progs hooks s h)) m path) = fst (match_ (build (opts_off o) (entries_rs es)) m path).
Proof.
  intros Hb Ht Hh Hm Hp.
  destruct (sys_run_invariant progs hooks h s (proj1 (sys_build_coherent o ss s Hb)) Hh) as (Hco & Hnc & _).
  rewrite (proj1 (match_transparent _ m path Hco Hm Hp)), Hnc.
  destruct (sys_build_table o ss s es Hb Ht) as (rt & E & Hnm).
  destruct (match_nm _ _ m path Hnm) as (r & rt1' & rt2' & E1 & E2 & _). rewrite E1. cbn [fst]. unfold entries_rs.
  rewrite <- (proj1 (string_level_lookup (opts_off o) es rt m path (proj1 Ht) E)), E2. reflexivity.
Qed.

Theorem sys_cache_key progs hooks o ss s es h m p path i ps sc pooled :
  sys_build o ss = Ok s -> table_of es s -> o_intercept o = [] ->
  hist_no_slash h -> no_slash m -> format_path (o_strict o) p = Ok path ->
  o_caching o = true -> 1 <= o_cap o ->
  let s' := sys_run progs hooks s h in
  fst (quick_match (s_rt s') m p) = QFound i (Some ps) ->
  let c := cache (s_rt (snd (sys_serve progs hooks s' m p sc pooled))) in
  let key := match spec_select (map entry_sroute es) m path with Some _ => m ++ path | None => GET ++ path end in
  (exists rest, c = (key, (i, ps)) :: rest) /\
  (exists rest, akeys (nat * params) c = key :: rest) /\
  NoDup (akeys (nat * params) c) /\ List.length c <= o_cap o.
Proof.
  intros Hb Ht Hi Hh Hm Hfp Hc Hcap s' Hq c key.
  destruct (sys_cache_key_gen progs hooks o ss s h m p path i ps sc pooled Hb Hi Hfp Hc Hcap Hq)
    as ((m' & rest & Hm' & Hr & Hk) & Hnd & Hlen).
  fold s' in Hm'. fold c in Hr, Hk, Hnd, Hlen.
  pose proof (format_rooted _ _ _ Hfp) as Hp.
  pose proof (sys_match_build progs hooks o ss s es h m path Hb Ht Hh Hm Hp) as Em. fold s' in Em.
  destruct (match_build (opts_off o) (entries_rs es) m path eq_refl (wf_entries_sroutes es (proj1 Ht)) Hm Hp) as [ops Eb].
  rewrite Eb in Em. cbn [fst] in Em. unfold entries_rs in Em.
  assert (Ekey : key = m' ++ path).
  { unfold key. destruct Hm' as [[-> Hl]|(-> & _ & Hl)]; rewrite Hl in Em;
      destruct (spec_select (map entry_sroute es) m path); try discriminate; reflexivity. }
  rewrite Ekey. split; [exists rest; exact Hr|]. split; [eexists; exact Hk|]. split; assumption.
Qed.

(* ====================================================================== *)
(* (6) examples: the hypotheses are satisfiable, the conclusions computed *)
(* ====================================================================== *)
Module EndExample.
Import String.
Import MoreExample.
Local Open Scope string_scope.
Local Open Scope nat_scope.
Local Open Scope list_scope.

(* caching ON with capacity 2, 405 detection on, no "/*" fallback *)
Definition e_opts : opts :=
  {| o_strict := false; o_na := true; o_fallback := false; o_caching := true; o_cap := 2; o_intercept := [] |}.

(* the program of SysMore.MoreExample without the global middleware, and with no custom NotFound / NotAllowed handlers:
   r.GET("/about", h10)
   r.Group("/api", func(){ r.Add("/users/{id:\d+}", h11, GET, POST).Use(h3); r.GET("/admin/{x}", h13).Use(h4) }, h2)
   r.GET("/{slug}[/{page}]", h12)
   its printable table is MoreExample.ex_table *)
Definition e_prog : list stmt :=
  [ SRoute [GET] (Consts.s "/about") 10 [] [] [];
    SGroup (Consts.s "/api") [2]
      [ SRoute [GET; POST] (Consts.s "/users/{id:\d+}") 11 [] [3] [];
        SRoute [GET] (Consts.s "/admin/{x}") 13 [] [4] [] ];
    SRoute [] (Consts.s "/{slug}[/{page}]") 12 [] [] [] ].

Definition e_sys : sys :=
  match sys_build e_opts e_prog with
  | Ok s => s
  | Panic => {| s_rt := new_router e_opts; s_routes := []; s_globals := []; s_noroute := []; s_noallowed := [] |}
  end.
Example e_build_ok : sys_build e_opts e_prog = Ok e_sys.
Proof. vm_compute. reflexivity. Qed.
Example e_table : table_of ex_table e_sys.
Proof. split; [exact ex_wf|]. vm_compute. auto. Qed.
Example e_no_globals : den_globals e_prog = [].
Proof. reflexivity. Qed.
Example e_no_custom : s_noallowed e_sys = [] /\ s_noroute e_sys = [].
Proof. vm_compute. auto. Qed.

(* middleware 2, 3, 4 trace and call Next; 11 takes a snapshot (it shows the parameters) and writes; others: one event *)
Definition e_progs (i : hid) : hprog :=
  match i with
  | 2 | 3 | 4 => [OEff (EEv i); ONext; OEff (EEv (100 + i))]
  | 11 => [OEff ESnap; OEff (EW (WWrite (Consts.s "ok")))]
  | _ => [OEff (EEv i)]
  end.

(* a history that fills the cache (capacity 2) and evicts *)
Definition e_hist : list hreq :=
  [ (GET, Consts.s "/api/users/1", [], fresh_ctx);
    (GET, Consts.s "/x/y", [1], fresh_ctx);
    (PUT, Consts.s "/api/users/7", [], fresh_ctx);
    (POST, Consts.s "/api/users/2", [], fresh_ctx) ].
Example e_hist_no_slash : hist_no_slash e_hist.
Proof. repeat constructor. Qed.
Notation e_later := (sys_run e_progs (None, None) e_sys e_hist).
Example e_later_cache :
  map fst (cache (s_rt e_later)) = [Consts.s "POST/api/users/2"; Consts.s "POST/api/users/7"].
Proof. vm_compute. reflexivity. Qed.

(* ---------- (1) a 405, an OPTIONS 200, a 404 ---------- *)
Definition p405 : str := Consts.s "//api/users/42/".
Definition n405 : str := Consts.s "/api/users/42".
Example e_fmt_405 : format_path (o_strict e_opts) p405 = Ok n405.
Proof. vm_compute. reflexivity. Qed.
Example e_ladder_405 : ladder e_opts (map entry_sroute ex_table) PUT n405 = QNotAllowed [GET; POST].
Proof. vm_compute. reflexivity. Qed.

Example e_405_by_theorem :
  exists x,
    fst (sys_serve e_progs (None, None) e_later PUT p405 [5] fresh_ctx) = Some (Done x [0]) /\
    x = final_commit (apply_all xctx eff apply_eff (effs_405 false [GET; POST])
                        (with_data [(k_allowed, DStrs [GET; POST])] (x_init [5]))) /\
    status (w x) = 405%Z /\
    log (w x) = error_log [5] msg_405 405%Z /\
    data x = [(k_allowed, DStrs [GET; POST])] /\ trace x = [] /\ errors x = [].
Proof.
  exact (sys_default_405 e_progs (None, None) e_opts e_prog e_sys ex_table e_hist PUT p405 n405 [GET; POST] [5] fresh_ctx
           e_build_ok e_table eq_refl e_hist_no_slash eq_refl e_fmt_405 e_ladder_405
           (proj1 e_no_custom) e_no_globals eq_refl).
Qed.
(* ... and computed: the short-write script [5] lets only "Metho" through; the Allow header value is "GET, POST" *)
Example e_405_computed :
  match fst (sys_serve e_progs (None, None) e_later PUT p405 [5] fresh_ctx) with
  | Some (Done x st) => status (w x) = 405%Z /\ log (w x) = [WH 405%Z; W (Consts.s "Metho")] /\ st = [0]
  | _ => False
  end /\
  effs_405 false [POST; GET] =
    [EW (WSetHeader (Consts.s "Allow") (Consts.s "GET, POST")); EW (WHttpError (Consts.s "Method not allowed") 405%Z)].
Proof. vm_compute. auto. Qed.

(* OPTIONS /about: only GET is registered; the built-in handler answers 200 with the Allow header and no body *)
Example e_ladder_options : ladder e_opts (map entry_sroute ex_table) OPTIONS (Consts.s "/about") = QNotAllowed [GET].
Proof. vm_compute. reflexivity. Qed.
Example e_fmt_about : format_path (o_strict e_opts) (Consts.s "/about/") = Ok (Consts.s "/about").
Proof. vm_compute. reflexivity. Qed.
Example e_options_by_theorem :
  exists x,
    fst (sys_serve e_progs (None, None) e_later OPTIONS (Consts.s "/about/") [] fresh_ctx) = Some (Done x [0]) /\
    status (w x) = 200%Z /\ log (w x) = [WH 200%Z].
Proof.
  destruct (sys_default_405 e_progs (None, None) e_opts e_prog e_sys ex_table e_hist OPTIONS (Consts.s "/about/")
              (Consts.s "/about") [GET] [] fresh_ctx
              e_build_ok e_table eq_refl e_hist_no_slash eq_refl e_fmt_about e_ladder_options
              (proj1 e_no_custom) e_no_globals eq_refl) as (x & H1 & _ & H2 & H3 & _).
  exists x. auto.
Qed.

(* GET /a/b/c: three segments, nothing matches, no other method either: 404 *)
Definition p404 : str := Consts.s "/a/b/c".
Example e_ladder_404 : ladder e_opts (map entry_sroute ex_table) GET p404 = QNotFound.
Proof. vm_compute. reflexivity. Qed.
Example e_fmt_404 : format_path (o_strict e_opts) p404 = Ok p404.
Proof. vm_compute. reflexivity. Qed.
Example e_404_by_theorem :
  exists x,
    fst (sys_serve e_progs (None, None) e_later GET p404 [] fresh_ctx) = Some (Done x [0]) /\
    x = final_commit (apply_all xctx eff apply_eff effs_404 (x_init [])) /\
    status (w x) = 404%Z /\
    log (w x) = error_log [] msg_404 404%Z /\
    data x = [] /\ trace x = [] /\ errors x = [].
Proof.
  exact (sys_default_404 e_progs (None, None) e_opts e_prog e_sys ex_table e_hist GET p404 p404 [] fresh_ctx
           e_build_ok e_table eq_refl e_hist_no_slash eq_refl e_fmt_404 e_ladder_404
           (proj2 e_no_custom) e_no_globals eq_refl).
Qed.
Example e_404_computed :
  match fst (sys_serve e_progs (None, None) e_later GET p404 [] fresh_ctx) with
  | Some (Done x st) => status (w x) = 404%Z /\ log (w x) = [WH 404%Z; W (Consts.s "404 page not found" ++ [10%N])]
  | _ => False
  end.
Proof. vm_compute. auto. Qed.

(* ---------- (2) a dynamic hit with parameters ---------- *)
Definition p42 : str := Consts.s "//api/users/42".
Example e_fmt_42 : format_path (o_strict e_opts) p42 = Ok n405.
Proof. vm_compute. reflexivity. Qed.
Example e_ladder_42 : ladder e_opts (map entry_sroute ex_table) POST n405 = QFound 1 None.
Proof. vm_compute. reflexivity. Qed.
Example e_params_by_theorem :
  exists r ps e,
    nth_error (den_block false [] [] e_prog) 1 = Some r /\
    nth_error ex_table 1 = Some e /\
    fst (quick_match (s_rt e_later) POST p42) = QFound 1 ps /\
    entry_params e n405 ps /\
    fst (sys_serve e_progs (None, None) e_later POST p42 [] fresh_ctx) =
      Some (handle_request (sys_cfg e_progs (None, None) e_sys) (str_eqb POST OPTIONS)
              (route_target e_progs r (opt_params ps) p42) (p_x (ctx_init [] fresh_ctx))).
Proof.
  exact (sys_params e_progs (None, None) e_opts e_prog e_sys ex_table e_hist POST p42 n405 1 [] fresh_ctx
           e_build_ok e_table eq_refl e_hist_no_slash eq_refl e_fmt_42 e_ladder_42).
Qed.
(* computed: the parameters QuickMatch reports are those of the entry's pattern, and the handler's snapshot shows them *)
Example e_params_computed :
  fst (quick_match (s_rt e_later) POST p42) = QFound 1 (Some [(Consts.s "id", Consts.s "42")]) /\
  pat_params (to_pat p_users) n405 = Some [(Consts.s "id", Consts.s "42")] /\
  match fst (sys_serve e_progs (None, None) e_later POST p42 [] fresh_ctx) with
  | Some (Done x st) =>
      st = [0; 1; 2] /\
      match trace x with
      | [TE 2; TE 3; TSnap sn; TE 103; TE 102] => s_params sn = [(Consts.s "id", Consts.s "42")]
      | _ => False
      end
  | _ => False
  end.
Proof. vm_compute. auto. Qed.
(* the decomposition clause, by the theorem *)
Example e_params_den_by_theorem l :
  fst (quick_match (s_rt e_later) POST p42) = QFound 1 (Some l) ->
  exists vs, pat_den (to_pat p_users) n405 vs /\ List.length vs = List.length (pat_names (to_pat p_users)) /\
    forall j n, nth_error (pat_names (to_pat p_users)) j = Some n -> assoc n l = Some (nth j vs []).
Proof.
  intros H.
  exact (sys_params_den e_progs (None, None) e_opts e_prog e_sys ex_table e_hist POST p42 n405 1 [GET; POST] p_users l
           e_build_ok e_table eq_refl e_hist_no_slash eq_refl e_fmt_42 H eq_refl).
Qed.

(* ---------- (3) every request is answered ---------- *)
Example e_total_by_theorem m p sc pooled : no_slash m ->
  fst (sys_serve e_progs (None, None) e_later m p sc pooled) <> None.
Proof.
  intros Hm.
  exact (sys_total e_progs (None, None) e_opts e_prog e_sys ex_table e_hist m p sc pooled
           e_build_ok e_table eq_refl e_hist_no_slash Hm).
Qed.

(* ---------- (4) the cache key ---------- *)
Example e_quick_42 : fst (quick_match (s_rt e_later) POST p42) = QFound 1 (Some [(Consts.s "id", Consts.s "42")]).
Proof. vm_compute. reflexivity. Qed.
Example e_sel_42 : spec_select (map entry_sroute ex_table) POST n405 = Some 1.
Proof. vm_compute. reflexivity. Qed.
Example e_cache_key_by_theorem :
  let c := cache (s_rt (snd (sys_serve e_progs (None, None) e_later POST p42 [] fresh_ctx))) in
  (exists rest, c = (POST ++ n405, (1, [(Consts.s "id", Consts.s "42")])) :: rest) /\
  (exists rest, akeys (nat * params) c = (POST ++ n405) :: rest) /\
  NoDup (akeys (nat * params) c) /\ List.length c <= 2.
Proof.
  pose proof (sys_cache_key e_progs (None, None) e_opts e_prog e_sys ex_table e_hist POST p42 n405 1 _ [] fresh_ctx
                e_build_ok e_table eq_refl e_hist_no_slash eq_refl e_fmt_42 eq_refl (le_S _ _ (le_n 1)) e_quick_42) as H.
  cbv zeta in H. rewrite e_sel_42 in H. exact H.
Qed.
(* computed: the new key is first, the least recently used key was evicted *)
Example e_cache_key_computed :
  akeys (nat * params) (cache (s_rt (snd (sys_serve e_progs (None, None) e_later POST p42 [] fresh_ctx)))) =
    [Consts.s "POST/api/users/42"; Consts.s "POST/api/users/2"].
Proof. vm_compute. reflexivity. Qed.
(* a HEAD request answered by the GET route: the key is the GET key (sys_cache_key's [key] on a spec_select miss) *)
Example e_cache_key_head :
  fst (quick_match (s_rt e_later) HEAD (Consts.s "/hello/3")) =
    QFound 3 (Some [(Consts.s "slug", Consts.s "hello"); (Consts.s "page", Consts.s "3")]) /\
  spec_select (map entry_sroute ex_table) HEAD (Consts.s "/hello/3") = None /\
  akeys (nat * params) (cache (s_rt (snd (sys_serve e_progs (None, None) e_later HEAD (Consts.s "/hello/3") [] fresh_ctx)))) =
    [Consts.s "GET/hello/3"; Consts.s "POST/api/users/2"].
Proof. vm_compute. auto. Qed.

(* ---------- (5) spellings ---------- *)
Example e_fmt_same : format_path (o_strict e_opts) (Consts.s "  //api/users/42// ") = format_path (o_strict e_opts) n405.
Proof. vm_compute. reflexivity. Qed.
Example e_spelling_by_theorem m :
  quick_match (s_rt e_later) m (Consts.s "  //api/users/42// ") = quick_match (s_rt e_later) m n405.
Proof.
  exact (proj1 (sys_spelling e_progs (None, None) e_opts e_prog e_sys e_hist m (Consts.s "  //api/users/42// ") n405
                  e_build_ok e_fmt_same)).
Qed.
End EndExample.

Print Assumptions sys_quick_build.
Print Assumptions quick_build_found.
Print Assumptions sys_not_allowed.
Print Assumptions sys_not_found.
Print Assumptions sys_default_405.
Print Assumptions sys_default_404.
Print Assumptions sys_params_quick.
Print Assumptions sys_params.
Print Assumptions sys_params_den.
Print Assumptions sys_total.
Print Assumptions sys_total_history.
Print Assumptions quick_spelling.
Print Assumptions sys_spelling.
Print Assumptions sys_spelling_fst.
Print Assumptions quick_cache_key.
Print Assumptions sys_cache_key_gen.
Print Assumptions sys_cache_key_own.
Print Assumptions sys_cache_key.
Print Assumptions EndExample.e_405_by_theorem.
Print Assumptions EndExample.e_options_by_theorem.
Print Assumptions EndExample.e_404_by_theorem.
Print Assumptions EndExample.e_params_by_theorem.
Print Assumptions EndExample.e_params_den_by_theorem.
Print Assumptions EndExample.e_total_by_theorem.
Print Assumptions EndExample.e_cache_key_by_theorem.
Print Assumptions EndExample.e_spelling_by_theorem.
