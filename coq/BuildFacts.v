(* BuildFacts.v — C15: a URL built for a named route (substitution of admissible values for the
   variables of its pattern) is matched by that pattern, dispatched by the lookup, and the parameters
   reported for it are a decomposition of the built path; named routes (GetRoute). *)
From Rux Require Import Base BaseFacts Str Rx RxFacts Pattern Pat PatFacts Build Cache Table TableFacts PatTable SelectFacts.
From Rux Require Import Norm.

(* ---------- 1. admissible values and the built path ---------- *)
(* values vs are admissible for an item list: one value per variable, each a word of its regex *)
Inductive admissible : list item -> list str -> Prop :=
| AD_nil : admissible [] []
| AD_lit s r vs : admissible r vs -> admissible (Lit s :: r) vs
| AD_var n re r v vs : den re v -> admissible r vs -> admissible (Var n re :: r) (v :: vs).

Lemma subst_items_den its vs : admissible its vs -> items_den its (subst_items its vs) vs.
Proof.
  intros H. induction H as [|s r vs H IH|n re r v vs Hv H IH]; cbn [subst_items].
  - constructor.
  - constructor. exact IH.
  - constructor; assumption.
Qed.

Lemma admissible_length its vs : admissible its vs -> List.length vs = List.length (item_names its).
Proof.
  intros H. induction H as [|s r vs H IH|n re r v vs Hv H IH]; unfold item_names in *; cbn [flat_map app List.length].
  - reflexivity.
  - exact IH.
  - rewrite IH. reflexivity.
Qed.

(* a pattern without optional parts matches the substitution of admissible values, with a decomposition that has exactly those values *)
Theorem built_path_matches p vs : pat_ok p -> p_opts p = [] -> admissible (p_req p) vs ->
  pat_den p (subst_items (p_req p) vs) vs /\ pat_matches p (subst_items (p_req p) vs) = true.
Proof.
  intros OK Ho Ha.
  assert (D : pat_den p (subst_items (p_req p) vs) vs).
  { exists (subst_items (p_req p) vs), vs, [], []. rewrite !app_nil_r.
    split; [reflexivity|]. split; [reflexivity|]. split; [apply subst_items_den; exact Ha|].
    rewrite Ho. apply (OD_absent []). }
  split; [exact D|]. apply (pat_matches_iff p _ OK). exists vs. exact D.
Qed.

(* hence the lookup dispatches the built path to this route or to a route the selection rule ranks higher (which then also matches) *)
Theorem built_path_dispatch o rs m i r p vs :
  o_caching o = false -> Forall wf_sroute rs -> no_slash m -> nth_error rs i = Some r -> In m (s_methods r) ->
  s_pat r = Some p -> p_opts p = [] -> admissible (p_req p) vs -> rooted (subst_items (p_req p) vs) ->
  exists j, sel (fst (match_ (build o rs) m (subst_items (p_req p) vs))) = Some j.
Proof.
  intros Hc WF Hm Hi Hin Hp Ho Ha Hr.
  destruct (sel (fst (match_ (build o rs) m (subst_items (p_req p) vs)))) as [j|] eqn:E; [exists j; reflexivity|].
  exfalso.
  pose proof (nth_error_In _ _ Hi) as Hrs.
  pose proof (selection_complete o rs m _ Hc WF Hm Hr E r Hrs Hin) as C. rewrite Hp in C.
  apply C. exists vs.
  rewrite Forall_forall in WF. pose proof (WF r Hrs) as W.
  apply built_path_matches; [exact (proj1 (wf_pat r W p Hp))|exact Ho|exact Ha].
Qed.

(* the selected route allows the method and itself matches the built path *)
Corollary built_path_dispatch_sound o rs m i r p vs :
  o_caching o = false -> Forall wf_sroute rs -> no_slash m -> nth_error rs i = Some r -> In m (s_methods r) ->
  s_pat r = Some p -> p_opts p = [] -> admissible (p_req p) vs -> rooted (subst_items (p_req p) vs) ->
  exists j r', sel (fst (match_ (build o rs) m (subst_items (p_req p) vs))) = Some j /\
    nth_error rs j = Some r' /\ In m (s_methods r') /\
    match s_pat r' with
    | None => s_path r' = subst_items (p_req p) vs
    | Some pt => exists vs', pat_den pt (subst_items (p_req p) vs) vs'
    end.
Proof.
  intros Hc WF Hm Hi Hin Hp Ho Ha Hr.
  destruct (built_path_dispatch o rs m i r p vs Hc WF Hm Hi Hin Hp Ho Ha Hr) as [j Hj].
  destruct (selection_sound o rs m _ j Hc WF Hm Hr Hj) as (r' & Hr' & Hin' & Hpat).
  exists j, r'. auto.
Qed.

(* the parameters reported for the built path by this route's pattern are a decomposition of the built path (C02) *)
Theorem built_path_params p vs ps : pat_ok p -> NoDup (pat_names p) -> p_opts p = [] -> admissible (p_req p) vs ->
  pat_params p (subst_items (p_req p) vs) = Some ps ->
  exists vs', pat_den p (subst_items (p_req p) vs) vs' /\ forall i n, nth_error (pat_names p) i = Some n -> assoc n ps = Some (nth i vs' []).
Proof.
  intros OK ND _ _ H. destruct (pat_params_sound p _ ps OK ND H) as (vs' & D & _ & G).
  exists vs'. split; assumption.
Qed.

(* ---------- 2. named routes ---------- *)
Lemma assoc_map_set_same {A} k (v : A) l : assoc k (map_set k v l) = Some v.
Proof. rewrite assoc_map_set, str_eqb_refl. reflexivity. Qed.
Lemma assoc_map_set_other {A} k k' (v : A) l : k <> k' -> assoc k' (map_set k v l) = assoc k' l.
Proof.
  intros Hne. rewrite assoc_map_set.
  destruct (str_eqb_spec k' k) as [E|NE]; [congruence|reflexivity].
Qed.

Lemma reg_route_named rt d rt' : reg_route rt d = Ok rt' ->
  named rt' = match df_name d with [] => named rt | n => map_set n (List.length (routes rt)) (named rt) end /\
  List.length (routes rt') = S (List.length (routes rt)).
Proof.
  unfold reg_route. destruct (negb (good_info (df_nil_handler d) (df_methods d))); [discriminate|].
  destruct (is_fixed_path (df_path d)).
  - intros H. inversion H; subst. cbn [named routes set_tables]. rewrite app_length. cbn [List.length]. split; [reflexivity|lia].
  - destruct (compile_dyn (df_path d)) as [dy|]; cbn [bind]; [|discriminate].
    destruct (compile_re dy) as [re|]; cbn [bind]; [|discriminate].
    destruct (d_first dy); intros H; inversion H; subst; cbn [named routes set_tables]; rewrite app_length; cbn [List.length];
      (split; [reflexivity|lia]).
Qed.

Theorem get_route_most_recent rt d rt' : reg_route rt d = Ok rt' -> df_name d <> [] ->
  assoc (df_name d) (named rt') = Some (List.length (routes rt)) /\ nth_error (routes rt') (List.length (routes rt)) <> None.
Proof.
  intros H Hn. destruct (reg_route_named rt d rt' H) as [En El]. split.
  - rewrite En. destruct (df_name d) as [|c n] eqn:E; [congruence|]. apply assoc_map_set_same.
  - apply nth_error_Some. lia.
Qed.

Theorem get_route_other_names_kept rt d rt' n : reg_route rt d = Ok rt' -> n <> df_name d -> assoc n (named rt') = assoc n (named rt).
Proof.
  intros H Hn. destruct (reg_route_named rt d rt' H) as [En _]. rewrite En.
  destruct (df_name d) as [|c n0] eqn:E; [reflexivity|]. apply assoc_map_set_other. congruence.
Qed.

(* Route.NamedTo: the (trimmed, non-empty) name points to the route; every other name keeps its route - in particular
   the names the route had before are NOT removed *)
Theorem named_to_get rt n rid : trim_space n <> [] -> assoc (trim_space n) (named (named_to rt n rid)) = Some rid.
Proof.
  intros H. unfold named_to, names_set. cbn [named set_tables].
  destruct (trim_space n) as [|c t] eqn:E; [congruence|]. apply assoc_map_set_same.
Qed.
Theorem named_to_other rt n rid m : m <> trim_space n -> assoc m (named (named_to rt n rid)) = assoc m (named rt).
Proof.
  intros H. unfold named_to, names_set. cbn [named set_tables].
  destruct (trim_space n) as [|c t] eqn:E; [reflexivity|]. apply assoc_map_set_other. congruence.
Qed.
Theorem named_to_tables rt n rid : routes (named_to rt n rid) = routes rt /\ stable (named_to rt n rid) = stable rt /\
  regular (named_to rt n rid) = regular rt /\ irregular (named_to rt n rid) = irregular rt.
Proof. repeat split. Qed.

(* ---------- 3. uniqueness of the decomposition for segment-shaped patterns ---------- *)
Definition slash_free (re : rx) : Prop := forall w, den re w -> ~ In slash w.

(* every variable is slash-free and is followed in its item list either by the end or by a literal that begins with '/' *)
Inductive seg_shaped : list item -> Prop :=
| SS_nil : seg_shaped []
| SS_lit s r : seg_shaped r -> seg_shaped (Lit s :: r)
| SS_var_end n re : slash_free re -> seg_shaped [Var n re]
| SS_var_lit n re s r : slash_free re -> seg_shaped r -> seg_shaped (Var n re :: Lit (slash :: s) :: r).

Lemma items_den_nil_inv s vs : items_den [] s vs -> s = [] /\ vs = [].
Proof. intros H. inversion H; subst. auto. Qed.
Lemma items_den_lit_inv l r s vs : items_den (Lit l :: r) s vs -> exists t, s = l ++ t /\ items_den r t vs.
Proof. intros H. inversion H; subst. eauto. Qed.
Lemma items_den_var_inv n re r s vs : items_den (Var n re :: r) s vs ->
  exists v t vs0, s = v ++ t /\ vs = v :: vs0 /\ den re v /\ items_den r t vs0.
Proof. intros H. inversion H; subst. eauto 8. Qed.

Lemma split_at_first_slash v : forall v' a b, ~ In slash v -> ~ In slash v' ->
  v ++ slash :: a = v' ++ slash :: b -> v = v' /\ a = b.
Proof.
  induction v as [|c v IH]; intros [|c' v'] a b Hv Hv' E; cbn [app] in E.
  - inversion E. auto.
  - inversion E; subst. exfalso. apply Hv'. left. reflexivity.
  - inversion E; subst. exfalso. apply Hv. left. reflexivity.
  - inversion E; subst. destruct (IH v' a b) as [-> ->]; auto.
    + intros Hin. apply Hv. right. exact Hin.
    + intros Hin. apply Hv'. right. exact Hin.
Qed.

Theorem decomposition_unique its s vs vs' : seg_shaped its -> items_den its s vs -> items_den its s vs' -> vs = vs'.
Proof.
  intros SS. revert s vs vs'.
  induction SS as [|l r SS IH|n re SF|n re l r SF SS IH]; intros s vs vs' D1 D2.
  - apply items_den_nil_inv in D1. apply items_den_nil_inv in D2. destruct D1 as [_ ->]. destruct D2 as [_ ->]. reflexivity.
  - apply items_den_lit_inv in D1. apply items_den_lit_inv in D2.
    destruct D1 as (t1 & E1 & D1). destruct D2 as (t2 & E2 & D2).
    rewrite E1 in E2. apply app_inv_head in E2. subst t2. exact (IH _ _ _ D1 D2).
  - apply items_den_var_inv in D1. apply items_den_var_inv in D2.
    destruct D1 as (v1 & t1 & w1 & E1 & -> & _ & D1). destruct D2 as (v2 & t2 & w2 & E2 & -> & _ & D2).
    apply items_den_nil_inv in D1. apply items_den_nil_inv in D2.
    destruct D1 as [-> ->]. destruct D2 as [-> ->]. rewrite !app_nil_r in *. congruence.
  - apply items_den_var_inv in D1. apply items_den_var_inv in D2.
    destruct D1 as (v1 & t1 & w1 & E1 & -> & Hv1 & D1). destruct D2 as (v2 & t2 & w2 & E2 & -> & Hv2 & D2).
    apply items_den_lit_inv in D1. apply items_den_lit_inv in D2.
    destruct D1 as (u1 & -> & D1). destruct D2 as (u2 & -> & D2).
    rewrite E1 in E2. cbn [app] in E2.
    destruct (split_at_first_slash v1 v2 _ _ (SF _ Hv1) (SF _ Hv2) E2) as [-> E3].
    apply app_inv_head in E3. subst u2. f_equal. exact (IH _ _ _ D1 D2).
Qed.

(* round trip for segment-shaped patterns without optional parts: whatever decomposition the pattern finds for the
   built path (in particular the reported parameters), its values are exactly the values that were substituted *)
Corollary built_path_values_back p vs vs' : p_opts p = [] -> seg_shaped (p_req p) -> admissible (p_req p) vs ->
  pat_den p (subst_items (p_req p) vs) vs' -> vs' = vs.
Proof.
  intros Ho SS Ha (s1 & v1 & s2 & v2 & Es & -> & D1 & D2). rewrite Ho in D2.
  assert (E2 : s2 = [] /\ v2 = []).
  { inversion D2; subst. split; reflexivity. }
  destruct E2 as [-> ->]. rewrite app_nil_r in *. subst s1.
  exact (decomposition_unique _ _ _ _ SS D1 (subst_items_den _ _ Ha)).
Qed.

Corollary built_path_params_back p vs ps : pat_ok p -> NoDup (pat_names p) -> p_opts p = [] -> seg_shaped (p_req p) ->
  admissible (p_req p) vs -> pat_params p (subst_items (p_req p) vs) = Some ps ->
  forall i n, nth_error (pat_names p) i = Some n -> assoc n ps = Some (nth i vs []).
Proof.
  intros OK ND Ho SS Ha H. destruct (built_path_params p vs ps OK ND Ho Ha H) as (vs' & D & G).
  rewrite (built_path_values_back p vs vs' Ho SS Ha D) in G. exact G.
Qed.
