(* Pattern.v — string-level transcription of route compilation (parse_match.go parseParamRoute,
   utils.go helpers): variable scanning, name/regex split, global variables, literal prefix ->
   start / first node, optional tails, the regex text handed to regexp.MustCompile. *)
From Rux Require Import Base Str Consts Rx RxParse.

(* ---- varRegex = `{[^/]+}` , FindAllString(path, -1): leftmost, greedy, non-overlapping ---- *)
Fixpoint seg_run (s : str) : str * str :=     (* maximal '/'-free prefix, rest *)
  match s with
  | [] => ([], [])
  | c :: r => if N.eqb c slash then ([], s) else let '(a, b) := seg_run r in (c :: a, b)
  end.
(* split a run at its last '}' : (before, after) *)
Fixpoint split_last_rbrace (s : str) : option (str * str) :=
  match s with
  | [] => None
  | c :: r => match split_last_rbrace r with
              | Some (a, b) => Some (c :: a, b)
              | None => if N.eqb c rbrace then Some ([], r) else None
              end
  end.
Fixpoint find_vars (fuel : nat) (s : str) : list str :=
  match fuel with
  | O => []
  | S f =>
    match s with
    | [] => []
    | c :: r =>
        if N.eqb c lbrace then
          let '(run, rest) := seg_run r in
          match split_last_rbrace run with
          | Some (inner, after) =>
              match inner with
              | [] => find_vars f r                      (* "{}" : [^/]+ needs one character *)
              | _ => (lbrace :: inner ++ [rbrace]) :: find_vars f (after ++ rest)
              end
          | None => find_vars f r
          end
        else find_vars f r
    end
  end.
Definition all_vars (path : str) : list str := find_vars (S (List.length path)) path.

(* strings.NewReplacer(pairs...).Replace : leftmost, argument order decides between candidates *)
Fixpoint match_pair (pairs : list (str * str)) (s : str) : option (str * str) :=   (* (new, rest) *)
  match pairs with
  | [] => None
  | (old, new) :: ps =>
      match old with
      | [] => match_pair ps s
      | _ => if has_prefix old s then Some (new, skipn (List.length old) s) else match_pair ps s
      end
  end.
Fixpoint replace_pairs (fuel : nat) (pairs : list (str * str)) (s : str) : str :=
  match fuel with
  | O => s
  | S f =>
    match s with
    | [] => []
    | c :: r => match match_pair pairs s with
                | Some (new, rest) => new ++ replace_pairs f pairs rest
                | None => c :: replace_pairs f pairs r
                end
    end
  end.
Definition replacer (pairs : list (str * str)) (s : str) : str := replace_pairs (S (List.length s)) pairs s.

(* utils.go quotePointChar: IndexByte(path,'.') > 0 -> every "." becomes "\." *)
Definition quote_point (path : str) : str :=
  match index_of dot path with
  | Some (S _) => flat_map (fun c => if N.eqb c dot then [bslash; dot] else [c]) path
  | _ => path
  end.

(* utils.go checkAndParseOptional *)
Definition opt_open : str := [40; 63; 58]%N.   (* "(?:" *)
Definition opt_close : str := [41; 63]%N.      (* ")?"  *)
Definition check_optional (path : str) : outcome str :=
  let no_closed := de (fun c => N.eqb c rbrack) path in
  let optional_num := (List.length path - List.length no_closed)%nat in
  if Nat.eqb optional_num (count_ch lbrack no_closed)
  then Ok (flat_map (fun c => if N.eqb c lbrack then opt_open else if N.eqb c rbrack then opt_close else [c]) path)
  else Panic.

Fixpoint lookup_var (name : str) (l : list (str * str)) : option str :=
  match l with [] => None | (k, v) :: r => if str_eqb name k then Some v else lookup_var name r end.
Definition get_global_var (name : str) : str :=
  match lookup_var name global_vars with Some v => v | None => any_match end.

(* route.goodRegexString: the first '(' must be followed by '?' *)
Definition good_regex_string (v : str) : bool :=
  match index_of 40%N v with
  | None => true
  | Some pos => match nth_error v (S pos) with
                | Some c => N.eqb c 63%N
                | None => false          (* v[pos+1] out of range: Go panics as well *)
                end
  end.

Definition split_colon (nv : str) : option (str * str) :=   (* IndexByte(nv, ':') > 0, SplitN(nv, ":", 2) *)
  match index_of colon nv with
  | Some (S i) => Some (firstn (S i) nv, skipn (S (S i)) nv)
  | _ => None
  end.

Definition braces (n : str) : str := lbrace :: n ++ [rbrace].
Definition parens (v : str) : str := 40%N :: v ++ [41%N].

(* per variable: (name, raw-var pair option, var-regex pair, regex ok) *)
Record vinfo := { v_name : str; v_raw : option (str * str); v_pair : str * str; v_good : bool }.
Definition var_info (vs : str) : vinfo :=
  let nv := removelast (tl vs) in                       (* str[1 : len-1] *)
  match split_colon nv with
  | Some (n0, v0) =>
      let n := trim_space n0 in let v := trim_space v0 in
      {| v_name := n; v_raw := Some (vs, braces n); v_pair := (braces n, parens v); v_good := good_regex_string v |}
  | None =>
      let v := get_global_var nv in
      {| v_name := nv; v_raw := None; v_pair := (vs, parens v); v_good := good_regex_string v |}
  end.

(* Route.parseStartAndFirst *)
Definition start_and_first (start : str) : str * str :=    (* (route.start, first) *)
  match start with
  | _ :: (_ :: _) as tl1 =>
      match index_of slash tl1 with
      | Some (S pos) =>
          let first := firstn (S pos) tl1 in
          if Nat.eqb (List.length start - List.length first) 2 then ([], first) else (start, first)
      | _ => (start, [])
      end
  | _ => ([], [])
  end.

Record dyn := { d_start : str; d_first : str; d_retext : str; d_names : list str }.

Fixpoint opt_list {A} (l : list (option A)) : list A :=
  match l with [] => [] | Some x :: r => x :: opt_list r | None :: r => opt_list r end.

(* parseParamRoute, up to (not including) regexp.MustCompile *)
Definition compile_dyn (path : str) : outcome dyn :=
  let ss := all_vars path in
  match ss with
  | [] =>
      let '(start, first) :=
        match index_of lbrack path with
        | Some (S p) => start_and_first (firstn (S p) path)
        | _ => ([], [])
        end in
      bind (check_optional (quote_point path)) (fun re =>
      Ok {| d_start := start; d_first := first; d_retext := re; d_names := [] |})
  | _ =>
      let vis := map var_info ss in
      if negb (forallb v_good vis) then Panic else
      let raw := opt_list (map v_raw vis) in
      let path1 := match raw with [] => path | _ => replacer raw path end in
      let arg_pos := index_of lbrace path1 in
      let opt_pos := index_of lbrack path1 in
      match arg_pos with
      | None => Panic                                  (* path[0:-1]: slice bounds out of range *)
      | Some a =>
          let min_pos := match opt_pos with
                         | Some (S o) => if Nat.ltb (S o) a then S o else a
                         | _ => a
                         end in
          let '(start, first) := start_and_first (firstn min_pos path1) in
          let path2 := quote_point path1 in
          bind (match opt_pos with Some (S _) => check_optional path2 | _ => Ok path2 end) (fun path3 =>
          Ok {| d_start := start; d_first := first; d_retext := replacer (map v_pair vis) path3;
                d_names := map v_name vis |})
      end
  end.

(* the compiled route: regexp.MustCompile("^" ++ retext ++ "$") and the group-count check (repair F05) *)
(* CRx r g: the compiled expression and its number of capturing groups (regex.NumSubexp()) *)
Inductive cre := CRx (r : rx) (g : nat) | CUnsup.
(* a body ending in an odd number of backslashes would escape the closing "$" anchor: outside the subset *)
Fixpoint leading_bsl (s : str) : nat :=
  match s with c :: r => if N.eqb c bslash then S (leading_bsl r) else O | [] => O end.
Definition trailing_bsl (s : str) : nat := leading_bsl (rev s).
(* fixed = true: with the group-count check of repair F05 (goodRegexGroups) *)
Definition compile_re_gen (fixed : bool) (d : dyn) : outcome cre :=
  if Nat.odd (trailing_bsl (d_retext d)) then Ok CUnsup else
  match parse_rx (d_retext d) with
  | PReject => Panic
  | PUnsup => Ok CUnsup
  | POk (r, g) => if negb fixed || Nat.eqb g (List.length (d_names d)) then Ok (CRx r g) else Panic
  end.
Definition compile_re := compile_re_gen true.

(* Route.matchRegex: parameters of the leftmost-first match; names are looked up by position *)
Inductive mres := MNo | MYes (ps : list (str * str)) | MPanic | MUnsup.
Fixpoint param_put (k v : str) (d : list (str * str)) : list (str * str) :=
  match d with
  | [] => [(k, v)]
  | (k', v') :: r => if str_eqb k k' then (k, v) :: r else (k', v') :: param_put k v r
  end.
Fixpoint zip_params (g : nat) (i : nat) (names : list str) (c : caps) (acc : list (str * str)) : option (list (str * str)) :=
  match g with
  | O => Some acc
  | S g' => match nth_error names i with
            | Some n => zip_params g' (S i) names c (param_put n (cap_get i c) acc)
            | None => None           (* r.matches[i]: index out of range *)
            end
  end.
(* for i, val := range vs[1:] { ps[r.matches[i]] = val } : one iteration per capturing group *)
Definition match_regex (re : cre) (names : list str) (path : str) : mres :=
  match re with
  | CUnsup => MUnsup
  | CRx r g => match full r path with
               | None => MNo
               | Some c => match zip_params g 0 names c [] with Some ps => MYes ps | None => MPanic end
               end
  end.
