(* RestOrder.v — create before show: Router.Resource under a base path with path variables.
   Go (router.go Resource), after the repair "Resource registers the actions in a fixed order": the actions are registered in
   the order Index, Create, Store, Show, Edit, Update, Delete (skipping the ones the controller does not implement), no
   longer in the iteration order of a Go map. With a base path that contains path variables (Resource("/u/{uid}/", ctl))
   EVERY route of the resource is a dynamic one - "create" is no longer a static route that wins over "{id}" (RestLookup.v:
   that is the case of a literal prefix, where the order does not matter) - and among dynamic routes the first registered
   one that matches wins.

     action_tail, action_ppat, pres_entry, pres_prefix   the table of a resource whose prefix Gp is a printable pattern prefix
     pres_entry_path                                      it prints as the documented paths (Rest.documented_path)
     spec_select_dynamic                                  on a table of dynamic routes of one tier the rule is "earliest match"
     create_before_show_string                            main theorem: GET of an instance of Gp/create selects Create, or
                                                          Index when Gp alone also matches the path (a variable that spans "/")
     create_never_show_string                             ... in particular never Show
     seg_vars, default_vars, create_selected_string       when the variables of Gp cannot match "/" it IS Create
     resource_registers_pres_entries, resource_create_before_show   the table is what Router.Resource registers (Reg/Rest model)
     create_before_show_legacy_refuted                    Show registered before Create: the same request selects Show *)
From Coq Require String.
From Coq Require Import Permutation.
From Rux Require Import Base BaseFacts Str Consts Norm NormFacts Reg RegFacts Rest RestFacts Rx RxFacts RxParse Pattern Pat PatFacts
  Cache Table TableFacts PatTable RoundTrip SelectFacts TableLink RestLookup.

(* ================================================================================================ *)
(* 1. the table                                                                                       *)
(* ================================================================================================ *)

(* what the action appends to the prefix: nothing, "/create", "/{id}", "/{id}/edit" *)
Definition action_tail (a : action) : list pitem :=
  match a with
  | AIndex | AStore => []
  | ACreate => lits create_seg
  | AShow | AUpdate | ADelete => lits [slash] ++ [id_item]
  | AEdit => lits [slash] ++ id_item :: lits edit_seg
  end.
(* Gp = the items of the resource prefix (literal characters and variables, no optional part) *)
Definition action_ppat (Gp : list pitem) (a : action) : ppat := {| pp_req := Gp ++ action_tail a; pp_opts := [] |}.
Definition pres_entry (Gp : list pitem) (a : action) : entry := EDyn (action_methods a) (action_ppat Gp a).

(* a printable pattern prefix: every route of the resource is a well-formed dynamic entry. For Index this says that Gp is a
   printable pattern with at least one variable; for the others also that no variable of Gp is called "id" and that Gp does
   not end inside a segment with a variable *)
Definition pres_prefix (Gp : list pitem) : bool := forallb (fun a => wf_entryb (pres_entry Gp a)) all_actions.

(* the order of the repaired code: the canonical list, restricted to the implemented actions *)
Definition canonical (impl : action -> bool) : list action := filter impl all_actions.
Definition create_pos (impl : action -> bool) : nat := if impl AIndex then 1 else 0.

Definition after_create : list action := [AStore; AShow; AEdit; AUpdate; ADelete].
Lemma canonical_shape impl : impl ACreate = true ->
  canonical impl = (if impl AIndex then [AIndex] else []) ++ ACreate :: filter impl after_create.
Proof.
  intros H. unfold canonical, all_actions. change [AIndex; ACreate; AStore; AShow; AEdit; AUpdate; ADelete] with ([AIndex] ++ ACreate :: after_create).
  rewrite filter_app. change (filter impl [AIndex]) with (if impl AIndex then [AIndex] else []).
  change (filter impl (ACreate :: after_create)) with (if impl ACreate then ACreate :: filter impl after_create else filter impl after_create).
  rewrite H. reflexivity.
Qed.
Lemma canonical_create impl : impl ACreate = true -> nth_error (canonical impl) (create_pos impl) = Some ACreate.
Proof.
  intros H. rewrite (canonical_shape impl H). unfold create_pos. destruct (impl AIndex); reflexivity.
Qed.

Lemma pres_prefix_wf Gp acts : pres_prefix Gp = true -> Forall wf_entry (map (pres_entry Gp) acts).
Proof.
  intros H. apply Forall_forall. intros e He. apply in_map_iff in He. destruct He as (a & <- & _).
  unfold pres_prefix in H. rewrite forallb_forall in H. apply H. destruct a; cbn [all_actions In]; auto 8.
Qed.

(* the entries print as the documented paths, relative to the text of the prefix *)
Lemma show_ppat_req its : show_ppat {| pp_req := its; pp_opts := [] |} = show_items its.
Proof.
  unfold show_ppat, flat. cbn [pp_req pp_opts opens closers flat_map List.length repeat]. rewrite !app_nil_r. reflexivity.
Qed.
Theorem pres_entry_path Gp a : entry_path (pres_entry Gp a) = documented_path (show_items Gp) a.
Proof.
  cbn [entry_path pres_entry]. unfold action_ppat. rewrite show_ppat_req. unfold show_items. rewrite showg_app.
  destruct a; cbn [documented_path action_tail]; rewrite ?app_nil_r; reflexivity.
Qed.
Lemma pres_entry_methods Gp a : entry_methods (pres_entry Gp a) = action_methods a.
Proof. reflexivity. Qed.

(* ================================================================================================ *)
(* 2. all routes of the resource are in the same tier of the selection rule                           *)
(* ================================================================================================ *)

Lemma vars_app a b : vars (a ++ b) = vars a ++ vars b.
Proof. apply flat_map_app. Qed.
Lemma vars_lits_nil s : vars (lits s) = [].
Proof. rewrite <- (app_nil_r (lits s)), vars_lits. reflexivity. Qed.

Lemma litpre_app_var Gp tail : vars Gp <> [] -> litpre (Gp ++ tail) = litpre Gp.
Proof.
  induction Gp as [|[c|n v] Gp IH]; intros H; cbn [app litpre]; [exfalso; apply H; reflexivity| |reflexivity].
  f_equal. apply IH. exact H.
Qed.

Lemma printable_vars its : printable {| pp_req := its; pp_opts := [] |} = true -> vars its <> [].
Proof.
  intros H. destruct (printable_sound _ H) as (_ & [Hd|Hd] & _).
  - unfold all_items in Hd. cbn [pp_req pp_opts concat] in Hd. rewrite app_nil_r in Hd. exact Hd.
  - cbn [pp_opts] in Hd. congruence.
Qed.

Lemma pres_has_first Gp a : vars Gp <> [] ->
  s_has_first (entry_sroute (pres_entry Gp a)) = s_has_first (entry_sroute (pres_entry Gp AIndex)).
Proof.
  intros H. unfold s_has_first. cbn [entry_sroute s_pat entry_pat pres_entry]. unfold first_segment.
  rewrite !pat_prefix_to_pat. unfold action_ppat. cbn [pp_req]. rewrite !litpre_app_var by exact H. reflexivity.
Qed.

Lemma find_idx_false {A} (l : list A) : forall i, find_idx (fun _ => false) l i = None.
Proof. induction l as [|x l IH]; intros i; cbn [find_idx]; auto. Qed.

(* a table of dynamic routes that all have, or all lack, a literal first segment: the earliest registered route that allows
   the method and matches the path *)
Lemma spec_select_dynamic rs m path b :
  (forall r, In r rs -> s_static r = false /\ s_has_first r = b) ->
  spec_select rs m path = find_idx (fun r => mem m (s_methods r) && s_matches r path) rs 0.
Proof.
  intros H. unfold spec_select.
  rewrite find_last_idx_all_false by (intros r Hr; destruct (H r Hr) as [-> _]; reflexivity).
  destruct b.
  - rewrite (find_idx_ext_in _ (fun r => mem m (s_methods r) && s_matches r path) rs)
      by (intros r Hr; destruct (H r Hr) as [-> ->]; reflexivity).
    destruct (find_idx _ rs 0); [reflexivity|].
    rewrite (find_idx_ext_in _ (fun _ => false) rs) by (intros r Hr; destruct (H r Hr) as [-> ->]; reflexivity).
    apply find_idx_false.
  - rewrite (find_idx_ext_in _ (fun _ => false) rs) by (intros r Hr; destruct (H r Hr) as [-> ->]; reflexivity).
    rewrite find_idx_false.
    apply find_idx_ext_in. intros r Hr. destruct (H r Hr) as [-> ->]. reflexivity.
Qed.

Lemma pres_table_tier Gp acts : vars Gp <> [] -> forall r, In r (map entry_sroute (map (pres_entry Gp) acts)) ->
  s_static r = false /\ s_has_first r = s_has_first (entry_sroute (pres_entry Gp AIndex)).
Proof.
  intros H r Hr. rewrite map_map in Hr. apply in_map_iff in Hr. destruct Hr as (a & <- & _).
  split; [reflexivity|apply pres_has_first; exact H].
Qed.

(* ================================================================================================ *)
(* 3. create before show                                                                              *)
(* ================================================================================================ *)

(* an instance of a printable pattern is a rooted path *)
Lemma instance_rooted p path : printable p = true -> pat_matches (to_pat p) path = true -> rooted path.
Proof.
  intros Hp Hm. destruct (printable_sound p Hp) as ([Hs _ _ _] & _).
  apply (pat_matches_iff _ path (pat_ok_to_pat p)) in Hm. destruct Hm as [vs D].
  apply pat_den_prefix in D. apply has_prefix_split in D. destruct D as [t ->].
  destruct (pat_prefix_rooted p Hs) as [t0 ->]. reflexivity.
Qed.

Lemma mem_GET_GET : mem GET [GET] = true.
Proof. reflexivity. Qed.

Section CreateBeforeShow.
Variables (o : opts) (Gp : list pitem) (impl : action -> bool) (rt : router) (path : str).
Hypothesis Hcache : o_caching o = false.
Hypothesis Hcreate : impl ACreate = true.
Hypothesis Hwf : Forall wf_entry (map (pres_entry Gp) (canonical impl)).
Hypothesis Hreg : reg_routes (new_router o) (map (fun a => entry_rdef (pres_entry Gp a)) (canonical impl)) = Ok rt.
(* the request: GET of an instance of Gp/create *)
Hypothesis Hpath : pat_matches (to_pat (action_ppat Gp ACreate)) path = true.

Lemma create_printable : printable (action_ppat Gp ACreate) = true.
Proof.
  rewrite Forall_forall in Hwf. assert (W: wf_entry (pres_entry Gp ACreate)).
  { apply Hwf. apply in_map. unfold canonical. apply filter_In. split; [cbn [all_actions In]; auto|exact Hcreate]. }
  unfold wf_entry, wf_entryb in W. apply andb_true_iff in W. apply W.
Qed.

Lemma prefix_has_var : vars Gp <> [].
Proof.
  pose proof (printable_vars _ create_printable) as H. cbn [action_tail] in H. rewrite vars_app, vars_lits_nil, app_nil_r in H. exact H.
Qed.

(* the main theorem: the first candidate in the canonical order. Index comes before Create and is a GET route too: it takes
   the request when the prefix alone matches the whole path, which needs a prefix variable whose regex matches text with "/"
   in it (a variable like {all}); otherwise the request is served by Create *)
Theorem create_before_show_string :
  sel (fst (match_ rt GET path)) =
  Some (if impl AIndex && pat_matches (to_pat (action_ppat Gp AIndex)) path then 0 else create_pos impl).
Proof.
  rewrite <- map_map in Hreg.
  rewrite (string_level_selection o _ rt GET path Hcache Hwf Hreg no_slash_GET (instance_rooted _ _ create_printable Hpath)).
  rewrite (spec_select_dynamic _ GET path _ (pres_table_tier Gp _ prefix_has_var)).
  rewrite (canonical_shape impl Hcreate). unfold create_pos. generalize (filter impl after_create) as rest. intros rest.
  destruct (impl AIndex); cbn [app map find_idx andb].
  - cbn [entry_sroute s_methods s_matches s_pat entry_methods entry_pat pres_entry action_methods]. rewrite mem_GET_GET. cbn [andb].
    destruct (pat_matches (to_pat (action_ppat Gp AIndex)) path); [reflexivity|].
    rewrite Hpath. reflexivity.
  - cbn [entry_sroute s_methods s_matches s_pat entry_methods entry_pat pres_entry action_methods]. rewrite mem_GET_GET, Hpath. reflexivity.
Qed.

(* GET Gp/create is never handled by the show action (whatever the variables of the prefix are) *)
Corollary create_never_show_string : forall i, sel (fst (match_ rt GET path)) = Some i -> nth_error (canonical impl) i <> Some AShow.
Proof.
  intros i Hi. rewrite create_before_show_string in Hi. injection Hi as Hi. subst i.
  rewrite (canonical_shape impl Hcreate). unfold create_pos.
  destruct (impl AIndex); cbn [andb]; [destruct (pat_matches (to_pat (action_ppat Gp AIndex)) path)|]; cbn [app nth_error]; intros E; discriminate E.
Qed.
End CreateBeforeShow.

(* ================================================================================================ *)
(* 4. prefixes whose variables stay inside a path segment                                             *)
(* ================================================================================================ *)

(* no variable of the prefix can match text with a "/" in it *)
Definition seg_vars (Gp : list pitem) : Prop :=
  forall n v, In (PVar n v) Gp -> forall x, den (sre_rx (vsre n v)) x -> ~ In slash x.

(* number of "/" in a text, and in the literal text of a pattern *)
Definition slashes (x : str) : nat := count_occ N.eq_dec x slash.
Definition lit_slashes (its : list item) : nat :=
  fold_right (fun it k => match it with Lit x => slashes x + k | Var _ _ => k end) 0 its.

Lemma slashes_app a b : slashes (a ++ b) = slashes a + slashes b.
Proof. apply count_occ_app. Qed.
Lemma slashes_cons c x : slashes (c :: x) = slashes [c] + slashes x.
Proof. change (c :: x) with ([c] ++ x). apply slashes_app. Qed.

Lemma items_den_slashes its x vs : items_den its x vs ->
  (forall n re, In (Var n re) its -> forall v, den re v -> ~ In slash v) -> slashes x = lit_slashes its.
Proof.
  induction 1 as [|l r t vs H IH|n re r v t vs Hv H IH]; intros Hvars; cbn [lit_slashes fold_right].
  - reflexivity.
  - rewrite slashes_app. fold (lit_slashes r). rewrite IH; [reflexivity|].
    intros n re Hin. apply (Hvars n re). right. exact Hin.
  - rewrite slashes_app. fold (lit_slashes r). rewrite IH by (intros n' re' Hin; apply (Hvars n' re'); right; exact Hin).
    assert (E: slashes v = 0). { apply count_occ_not_In. apply (Hvars n re); [left; reflexivity|exact Hv]. }
    rewrite E. reflexivity.
Qed.

Lemma lit_slashes_cons_lit c its : lit_slashes (cons_lit c its) = slashes [c] + lit_slashes its.
Proof.
  destruct its as [|[x|n re] its]; cbn [cons_lit lit_slashes fold_right]; try lia.
  rewrite (slashes_cons c x). lia.
Qed.
Lemma lit_slashes_to_items_app l1 l2 :
  lit_slashes (to_items (l1 ++ l2)) = lit_slashes (to_items l1) + lit_slashes (to_items l2).
Proof.
  induction l1 as [|[c|n v] l1 IH]; cbn [app to_items]; [reflexivity| |].
  - rewrite !lit_slashes_cons_lit, IH. lia.
  - cbn [lit_slashes fold_right]. exact IH.
Qed.

Lemma to_items_var_in l n re : In (Var n re) (to_items l) -> exists v, In (PVar n v) l /\ re = sre_rx (vsre n v).
Proof.
  induction l as [|[c|n' v'] l IH]; cbn [to_items]; intros H.
  - contradiction.
  - apply in_cons_lit in H. destruct H as [[x Hx]|H]; [discriminate|].
    destruct (IH H) as (v & Hv & E). exists v. split; [right; exact Hv|exact E].
  - destruct H as [H|H].
    + inversion H; subst. exists v'. split; [left; reflexivity|reflexivity].
    + destruct (IH H) as (v & Hv & E). exists v. split; [right; exact Hv|exact E].
Qed.

Lemma seg_vars_items Gp x : seg_vars Gp ->
  forall n re, In (Var n re) (to_items (Gp ++ lits x)) -> forall v, den re v -> ~ In slash v.
Proof.
  intros HS n re Hin v Hv. apply to_items_var_in in Hin. destruct Hin as (e & Hin & ->).
  apply in_app_or in Hin. destruct Hin as [Hin|Hin]; [exact (HS n e Hin v Hv)|].
  unfold lits in Hin. apply in_map_iff in Hin. destruct Hin as (c & Hc & _). discriminate.
Qed.

Lemma req_den its path vs : pat_den {| p_req := its; p_opts := [] |} path vs -> items_den its path vs.
Proof.
  intros (s1 & v1 & s2 & v2 & -> & -> & D1 & D2). cbn [p_req p_opts] in *.
  apply opts_den_nil_inv in D2. destruct D2 as [-> ->]. rewrite !app_nil_r. exact D1.
Qed.

(* an instance of Gp/create has one "/" more than every instance of Gp *)
Theorem create_not_index Gp path : seg_vars Gp ->
  pat_matches (to_pat (action_ppat Gp ACreate)) path = true -> pat_matches (to_pat (action_ppat Gp AIndex)) path = false.
Proof.
  intros HS Hc. destruct (pat_matches (to_pat (action_ppat Gp AIndex)) path) eqn:Hi; [exfalso|reflexivity].
  apply (pat_matches_iff _ path (pat_ok_to_pat _)) in Hc. destruct Hc as [vc Dc].
  apply (pat_matches_iff _ path (pat_ok_to_pat _)) in Hi. destruct Hi as [vi Di].
  unfold to_pat, action_ppat in Dc, Di. cbn [pp_req pp_opts map action_tail] in Dc, Di.
  apply req_den in Dc. apply req_den in Di.
  apply items_den_slashes in Dc; [|apply seg_vars_items; exact HS].
  change (@nil pitem) with (lits []) in Di.
  apply items_den_slashes in Di; [|apply seg_vars_items; exact HS].
  rewrite lit_slashes_to_items_app in Dc, Di.
  assert (E1: lit_slashes (to_items (lits create_seg)) = 1) by reflexivity.
  assert (E0: lit_slashes (to_items (lits [])) = 0) by reflexivity.
  lia.
Qed.

(* a syntactic criterion: every variable of the prefix is written {name}, with a name other than the global "all" and "num"
   ({name} then stands for [^/]+) *)
Definition all_name : str := [97; 108; 108]%N.
Definition num_name : str := [110; 117; 109]%N.
Definition default_vars (Gp : list pitem) : bool :=
  forallb (fun it => match it with
                     | PChr _ => true
                     | PVar n VDef => negb (str_eqb n all_name) && negb (str_eqb n num_name)
                     | PVar _ (VRe _) => false
                     end) Gp.

Lemma default_vars_seg Gp : default_vars Gp = true -> seg_vars Gp.
Proof.
  intros H n v Hin x Hx. unfold default_vars in H. rewrite forallb_forall in H. specialize (H _ Hin). cbn beta iota in H.
  destruct v as [e|]; [discriminate|]. apply andb_true_iff in H. destruct H as [Ha Hn].
  apply negb_true_iff in Ha. apply negb_true_iff in Hn.
  assert (E: vsre n VDef = sre_any).
  { cbn [vsre]. unfold def_sre. fold all_name. fold num_name. rewrite Ha, Hn. match goal with |- (if ?b then _ else _) = _ => destruct b end; reflexivity. }
  rewrite E in Hx. change (sre_rx sre_any) with id_rx in Hx. apply den_id_rx in Hx. apply Hx.
Qed.

(* GET of an instance of Gp/create selects the Create entry *)
Theorem create_selected_string o Gp impl rt path :
  o_caching o = false -> impl ACreate = true -> seg_vars Gp ->
  Forall wf_entry (map (pres_entry Gp) (canonical impl)) ->
  reg_routes (new_router o) (map (fun a => entry_rdef (pres_entry Gp a)) (canonical impl)) = Ok rt ->
  pat_matches (to_pat (action_ppat Gp ACreate)) path = true ->
  sel (fst (match_ rt GET path)) = Some (create_pos impl) /\ nth_error (canonical impl) (create_pos impl) = Some ACreate.
Proof.
  intros Hc Hcr HS Hwf Hreg Hp. split; [|apply canonical_create; exact Hcr].
  rewrite (create_before_show_string o Gp impl rt path Hc Hcr Hwf Hreg Hp).
  rewrite (create_not_index Gp path HS Hp), andb_false_r. reflexivity.
Qed.

(* the same with the executable side conditions only *)
Corollary create_selected_default o Gp impl rt path :
  o_caching o = false -> impl ACreate = true -> pres_prefix Gp = true -> default_vars Gp = true ->
  reg_routes (new_router o) (map (fun a => entry_rdef (pres_entry Gp a)) (canonical impl)) = Ok rt ->
  pat_matches (to_pat (action_ppat Gp ACreate)) path = true ->
  sel (fst (match_ rt GET path)) = Some (create_pos impl) /\ nth_error (canonical impl) (create_pos impl) = Some ACreate.
Proof.
  intros Hc Hcr HP HD. apply create_selected_string; auto using default_vars_seg, pres_prefix_wf.
Qed.

(* registration of such a table always succeeds (TableLink.reg_routes_equiv), so the theorems are not vacuous *)
Lemma pres_registers o Gp acts : pres_prefix Gp = true ->
  exists rt, reg_routes (new_router o) (map (fun a => entry_rdef (pres_entry Gp a)) acts) = Ok rt.
Proof.
  intros HP. destruct (reg_routes_equiv o (map (pres_entry Gp) acts) (pres_prefix_wf Gp acts HP)) as (rt & E & _).
  exists rt. rewrite map_map in E. exact E.
Qed.

(* ================================================================================================ *)
(* 5. link to the registration model: what Router.Resource registers IS this table                    *)
(* ================================================================================================ *)

Theorem resource_registers_pres_entries base res acts uses st' Gp :
  show_items Gp = nf false (base ++ res) -> clean (show_items Gp) ->
  exec_block false (resource_stmts base res acts uses) rinit = Ok st' ->
  map rdef_of (r_routes st') = map (fun a => entry_rdef (pres_entry Gp a)) acts.
Proof.
  intros EG HG H. rewrite (resource_routes _ _ _ _ _ _ H), map_map. apply map_ext. intros a.
  unfold rdef_of, entry_rdef. cbn [r_methods r_path]. rewrite pres_entry_methods, pres_entry_path.
  rewrite <- EG, (documented_paths _ a HG). reflexivity.
Qed.

(* end to end: Resource, visiting the implemented actions in the canonical order, then a lookup in the router built from the
   registered texts *)
Theorem resource_create_before_show o base res impl uses st' Gp rt path :
  show_items Gp = nf false (base ++ res) -> clean (show_items Gp) ->
  pres_prefix Gp = true -> seg_vars Gp -> o_caching o = false -> impl ACreate = true ->
  exec_block false (resource_stmts base res (canonical impl) uses) rinit = Ok st' ->
  reg_routes (new_router o) (map rdef_of (r_routes st')) = Ok rt ->
  pat_matches (to_pat (action_ppat Gp ACreate)) path = true ->
  option_map (fun i => nth i (canonical impl) AIndex) (sel (fst (match_ rt GET path))) = Some ACreate.
Proof.
  intros EG HG HP HS Hc Hcr Hx Hreg Hp.
  rewrite (resource_registers_pres_entries base res _ uses st' Gp EG HG Hx) in Hreg.
  destruct (create_selected_string o Gp impl rt path Hc Hcr HS (pres_prefix_wf Gp _ HP) Hreg Hp) as [-> Hn].
  cbn [option_map]. f_equal. apply nth_error_nth. exact Hn.
Qed.

(* ================================================================================================ *)
(* 6. a concrete resource, and the order that the code before the repair could pick                   *)
(* ================================================================================================ *)
Module Examples.
Import String.
(* Resource("/users/{uid}/", new(Posts)) : prefix /users/{uid}/posts *)
Definition Gp0 : list pitem := lits (s "/users/") ++ PVar (s "uid") VDef :: lits (s "/posts").
Definition all_impl : action -> bool := fun _ => true.
(* one iteration order of the Go map RESTFulActions *)
Definition legacy_order : list action := [AShow; AEdit; ACreate; AIndex; ADelete; AUpdate; AStore].

Example prefix_ok : pres_prefix Gp0 = true /\ default_vars Gp0 = true.
Proof. vm_compute. split; reflexivity. Qed.
Example prefix_bad : pres_prefix (lits (s "/users")) = false /\ pres_prefix (lits (s "/u/") ++ [PVar (s "id") VDef]) = false.
Proof. vm_compute. split; reflexivity. Qed.
Example texts : map (fun a => entry_path (pres_entry Gp0 a)) all_actions =
  [s "/users/{uid}/posts"; s "/users/{uid}/posts/create"; s "/users/{uid}/posts"; s "/users/{uid}/posts/{id}";
   s "/users/{uid}/posts/{id}/edit"; s "/users/{uid}/posts/{id}"; s "/users/{uid}/posts/{id}"].
Proof. vm_compute. reflexivity. Qed.
Example legacy_perm : Permutation legacy_order (canonical all_impl).
Proof. apply NoDup_Permutation; [repeat constructor; vm_compute; intuition discriminate|repeat constructor; vm_compute; intuition discriminate|].
  intros a. destruct a; vm_compute; intuition discriminate.
Qed.

Definition rt_of (acts : list action) : router :=
  match reg_routes (new_router default_opts) (map (fun a => entry_rdef (pres_entry Gp0 a)) acts) with
  | Ok rt => rt | Panic => new_router default_opts end.
Example reg_fixed : reg_routes (new_router default_opts) (map (fun a => entry_rdef (pres_entry Gp0 a)) (canonical all_impl)) = Ok (rt_of (canonical all_impl)).
Proof. vm_compute. reflexivity. Qed.
Example reg_legacy : reg_routes (new_router default_opts) (map (fun a => entry_rdef (pres_entry Gp0 a)) legacy_order) = Ok (rt_of legacy_order).
Proof. vm_compute. reflexivity. Qed.

Definition req_path : str := s "/users/7/posts/create".
Example req_instance : pat_matches (to_pat (action_ppat Gp0 ACreate)) req_path = true.
Proof. vm_compute. reflexivity. Qed.

(* the theorem instantiated ... *)
Example fixed_create : sel (fst (match_ (rt_of (canonical all_impl)) GET req_path)) = Some 1%nat /\ nth 1 (canonical all_impl) AIndex = ACreate.
Proof.
  split; [|reflexivity].
  destruct (create_selected_default default_opts Gp0 all_impl _ req_path eq_refl eq_refl (proj1 prefix_ok) (proj2 prefix_ok)
              reg_fixed req_instance) as [H _]. exact H.
Qed.
(* ... and computed *)
Example fixed_create_computed : fst (match_ (rt_of (canonical all_impl)) GET req_path) = LHit 1 (Some [(s "uid", s "7")]).
Proof. vm_compute. reflexivity. Qed.

(* the side condition on the variables is needed: Resource("/files/{all}/", new(Create)) - the variable {all} matches any
   text - gives the prefix /files/{all}/create, and the Index route, registered first, matches /files/x/create/create too
   (all = x/create). The general theorem says so; the request is still not handled by Show. (Observed with the Go code.) *)
Definition Gp1 : list pitem := lits (s "/files/") ++ PVar (s "all") VDef :: lits (s "/create").
Definition req_path1 : str := s "/files/x/create/create".
Example greedy_prefix : pres_prefix Gp1 = true /\ default_vars Gp1 = false /\
  pat_matches (to_pat (action_ppat Gp1 ACreate)) req_path1 = true /\
  pat_matches (to_pat (action_ppat Gp1 AIndex)) req_path1 = true.
Proof. vm_compute. repeat split; reflexivity. Qed.
Example greedy_prefix_index :
  match reg_routes (new_router default_opts) (map (fun a => entry_rdef (pres_entry Gp1 a)) (canonical all_impl)) with
  | Ok rt => fst (match_ rt GET req_path1) = LHit 0 (Some [(s "all", s "x/create")])
  | Panic => False
  end.
Proof. vm_compute. reflexivity. Qed.
End Examples.

(* the code before the repair: with Show registered before Create the same request is handled by Show, with id = "create" *)
Theorem create_before_show_legacy_refuted : exists Gp acts rt path,
  pres_prefix Gp = true /\ default_vars Gp = true /\ Permutation acts (canonical (fun _ => true)) /\
  reg_routes (new_router default_opts) (map (fun a => entry_rdef (pres_entry Gp a)) acts) = Ok rt /\
  pat_matches (to_pat (action_ppat Gp ACreate)) path = true /\
  option_map (fun i => nth i acts AIndex) (sel (fst (match_ rt GET path))) = Some AShow /\
  fst (match_ rt GET path) = LHit 0 (Some [([117; 105; 100]%N, [55]%N) (* uid = 7 *); (id_name, to_lower (action_name ACreate))]).
Proof.
  exists Examples.Gp0, Examples.legacy_order, (Examples.rt_of Examples.legacy_order), Examples.req_path.
  split; [exact (proj1 Examples.prefix_ok)|]. split; [exact (proj2 Examples.prefix_ok)|].
  split; [exact Examples.legacy_perm|]. split; [exact Examples.reg_legacy|].
  split; [exact Examples.req_instance|]. vm_compute. split; reflexivity.
Qed.

Print Assumptions pres_entry_path.
Print Assumptions spec_select_dynamic.
Print Assumptions create_before_show_string.
Print Assumptions create_never_show_string.
Print Assumptions create_not_index.
Print Assumptions default_vars_seg.
Print Assumptions create_selected_string.
Print Assumptions create_selected_default.
Print Assumptions pres_registers.
Print Assumptions resource_registers_pres_entries.
Print Assumptions resource_create_before_show.
Print Assumptions Examples.fixed_create.
Print Assumptions create_before_show_legacy_refuted.
