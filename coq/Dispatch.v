(* Dispatch.v — one request: the concrete context state behind the chain machine, the
   dispatcher (handleHTTPRequest: chain assembly, OnPanic recovery, OnError, final commit) and
   Context.Init/Reset. *)
From Rux Require Import Base Str Writer Chain.
Open Scope Z_scope.

(* ---------- the rest of the context (everything but cursor and chain) ---------- *)
Inductive dval := DNat (n : nat) | DStr (s : str) | DStrs (l : list str) | DPanic (p : pval).

(* what a handler can observe in one snapshot *)
Record snap := { s_data : list (str * dval); s_params : list (str * str); s_nerrors : nat;
                 s_status : Z; s_length : Z; s_resp_own : bool; s_req_own : bool }.
Inductive tev := TE (t : nat) | TAb (b : bool) | TSnap (s : snap).

Record xctx := { trace : list tev; w : wstate; data : list (str * dval); params : list (str * str);
                 errors : list nat; resp_own : bool; req_own : bool }.

Inductive eff :=
| EEv (t : nat)                   (* trace event *)
| EW (o : wop)                    (* writer op through c.Resp / c.SetStatus *)
| ESetData (k : str) (v : nat)    (* c.Set(k, v) *)
| EAddError (e : nat)             (* c.AddError(err) *)
| ESetParam (k v : str)           (* c.Params[k] = v (when Params is non-nil) *)
| EReplaceResp                    (* c.Resp = some other ResponseWriter *)
| EReplaceReq                     (* c.Req = c.Req.WithContext(...) *)
| ESnap.                          (* record a snapshot of the context *)

Fixpoint data_set (k : str) (v : dval) (d : list (str * dval)) : list (str * dval) :=
  match d with
  | [] => [(k, v)]
  | (k', v') :: r => if str_eqb k k' then (k, v) :: r else (k', v') :: data_set k v r
  end.
Fixpoint param_set (k v : str) (d : list (str * str)) : list (str * str) :=
  match d with
  | [] => [(k, v)]
  | (k', v') :: r => if str_eqb k k' then (k, v) :: r else (k', v') :: param_set k v r
  end.

Definition with_trace t x := {| trace := trace x ++ [t]; w := w x; data := data x; params := params x;
                               errors := errors x; resp_own := resp_own x; req_own := req_own x |}.
Definition with_w w' x := {| trace := trace x; w := w'; data := data x; params := params x;
                            errors := errors x; resp_own := resp_own x; req_own := req_own x |}.
Definition with_data d x := {| trace := trace x; w := w x; data := d; params := params x;
                              errors := errors x; resp_own := resp_own x; req_own := req_own x |}.

Definition take_snap (x : xctx) : snap :=
  {| s_data := data x; s_params := params x; s_nerrors := List.length (errors x);
     s_status := status (w x); s_length := length (w x); s_resp_own := resp_own x; s_req_own := req_own x |}.

Definition apply_eff (e : eff) (x : xctx) : xctx :=
  match e with
  | EEv t => with_trace (TE t) x
  | EW o => with_w (wstep (w x) o) x
  | ESetData k v => with_data (data_set k (DNat v) (data x)) x
  | EAddError e => {| trace := trace x; w := w x; data := data x; params := params x;
                      errors := errors x ++ [e]; resp_own := resp_own x; req_own := req_own x |}
  | ESetParam k v => {| trace := trace x; w := w x; data := data x; params := param_set k v (params x);
                        errors := errors x; resp_own := resp_own x; req_own := req_own x |}
  | EReplaceResp => {| trace := trace x; w := w x; data := data x; params := params x;
                       errors := errors x; resp_own := false; req_own := req_own x |}
  | EReplaceReq => {| trace := trace x; w := w x; data := data x; params := params x;
                      errors := errors x; resp_own := resp_own x; req_own := false |}
  | ESnap => with_trace (TSnap (take_snap x)) x
  end.
Definition note_aborted (b : bool) (x : xctx) : xctx := with_trace (TAb b) x.
Definition abort_status (code : Z) (x : xctx) : xctx := with_w (write_header code (w x)) x.

Definition hop := op eff.
Definition hprog := list hop.

Definition mstep := step xctx eff apply_eff note_aborted abort_status.
Definition mrun := run xctx eff apply_eff note_aborted abort_status.

(* ---------- Context.Init / Reset on a pooled context ---------- *)
(* a pooled context as the previous request left it *)
Record pctx := { p_index : Z; p_handlers : list nat; p_x : xctx }.
(* Reset(): index = -1, data = nil, Resp = &writer, Params = nil, handlers[:0], Errors[:0];
   Init(): writer.reset(w) (status 0, length -1, new underlying writer), Req = r *)
Definition ctx_reset (c : pctx) : pctx :=
  {| p_index := -1; p_handlers := firstn 0 (p_handlers c);
     p_x := {| trace := trace (p_x c); w := w (p_x c); data := []; params := [];
               errors := firstn 0 (errors (p_x c)); resp_own := true; req_own := req_own (p_x c) |} |}.
Definition ctx_init (sc : list nat) (c : pctx) : pctx :=
  ctx_reset {| p_index := p_index c; p_handlers := p_handlers c;
               p_x := {| trace := []; w := winit sc; data := data (p_x c); params := params (p_x c);
                         errors := errors (p_x c); resp_own := resp_own (p_x c); req_own := true |} |}.
Definition fresh_ctx : pctx :=
  {| p_index := -1; p_handlers := [];
     p_x := {| trace := []; w := winit []; data := []; params := []; errors := []; resp_own := true; req_own := true |} |}.

(* ---------- the dispatcher ---------- *)
Record rcfg := { globals : list hprog; on_panic : option hprog; on_error : option hprog }.

Inductive target :=
| TRoute (mws : list hprog) (main : hprog) (ps : list (str * str)) (name path : str)
| TNotAllowed (allowed : list str) (hs : list hprog)     (* hs = [] -> default 405 handler *)
| TNotFound (hs : list hprog).                           (* hs = [] -> default 404 handler *)

Definition ascii (l : list N) : str := l.
Definition k_route_name : str := [95;99;117;114;114;101;110;116;82;111;117;116;101;78;97;109;101]%N.  (* _currentRouteName *)
Definition k_route_path : str := [95;99;117;114;114;101;110;116;82;111;117;116;101;80;97;116;104]%N.  (* _currentRoutePath *)
Definition k_allowed : str := [95;97;108;108;111;119;101;100;77;101;116;104;111;100;115]%N.           (* _allowedMethods *)
Definition k_recover : str := [95;114;101;99;111;118;101;114;82;101;115;117;108;116]%N.               (* _recoverResult *)
Definition msg_404 : str := [52;48;52;32;112;97;103;101;32;110;111;116;32;102;111;117;110;100]%N.     (* "404 page not found" *)
Definition msg_405 : str := [77;101;116;104;111;100;32;110;111;116;32;97;108;108;111;119;101;100]%N.  (* "Method not allowed" *)
Definition hdr_allow : str := [65;108;108;111;119]%N.                                                  (* "Allow" *)
Definition comma_sp : str := [44;32]%N.

(* internal404Handler / internal405Handler as handler programs *)
Definition default_404 : hprog := [OEff (EW (WHttpError msg_404 404))].
Definition default_405 (is_options : bool) (allowed : list str) : hprog :=
  [OEff (EW (WSetHeader hdr_allow (join comma_sp (sort_strs allowed))));
   if is_options then OEff (EW (WSetStatus 200)) else OEff (EW (WHttpError msg_405 405))].

Definition assemble (cfg : rcfg) (is_options : bool) (t : target) (x : xctx) : list hprog * xctx :=
  match t with
  | TRoute mws main ps name path =>
      let x := {| trace := trace x; w := w x; data := data x; params := ps; errors := errors x;
                  resp_own := resp_own x; req_own := req_own x |} in
      let x := with_data (data_set k_route_path (DStr path) (data_set k_route_name (DStr name) (data x))) x in
      (globals cfg ++ mws ++ [main], x)
  | TNotAllowed allowed hs =>
      let x := with_data (data_set k_allowed (DStrs allowed) (data x)) x in
      (globals cfg ++ (match hs with [] => [default_405 is_options allowed] | _ => hs end), x)
  | TNotFound hs =>
      (globals cfg ++ (match hs with [] => [default_404] | _ => hs end), x)
  end.

Definition prog_size (hs : list hprog) : nat := fold_right (fun h n => (List.length h + n + 3)%nat) 8%nat hs.

Inductive outcome1 := Done (x : xctx) (started : list nat) | Escaped (p : pval) (x : xctx) (started : list nat) | OutOfFuel.

(* run a hook (OnPanic / OnError): a direct call of a handler function on the context *)
Definition run_hook (fuel : nat) (hook : hprog) (c : ctx xctx eff) : st xctx eff := mrun fuel (Run c [FOps hook]).

Definition final_commit (x : xctx) : xctx := with_w (ensure (w x)) x.

(* fixed = true: the dispatcher after repair F09 (commit after the OnPanic hook) *)
Definition handle_request_gen (fixed : bool) (cfg : rcfg) (is_options : bool) (t : target) (x0 : xctx) : outcome1 :=
  let '(hs, x1) := assemble cfg is_options t x0 in
  let fuel := (4 * prog_size hs + 64)%nat in
  let hookfuel h := (4 * List.length h + 16 + fuel)%nat in
  match mrun fuel (init xctx eff hs x1) with
  | Halt c =>
      match on_error cfg, errors (xs c) with
      | Some h, _ :: _ =>
          match run_hook (hookfuel h) h c with
          | Halt c' => Done (final_commit (xs c')) (started c')
          | Panicked p c' =>
              (* a panic inside OnError is handled like any other panic of the request *)
              match on_panic cfg with
              | Some ph =>
                  let c'' := set_xs xctx eff (with_data (data_set k_recover (DPanic p) (data (xs c'))) (xs c')) c' in
                  match run_hook (hookfuel ph) ph c'' with
                  | Halt c3 => Done (if fixed then final_commit (xs c3) else xs c3) (started c3)
                  | Panicked p' c3 => Escaped p' (xs c3) (started c3)
                  | Run _ _ => OutOfFuel
                  end
              | None => Escaped p (xs c') (started c')
              end
          | Run _ _ => OutOfFuel
          end
      | _, _ => Done (final_commit (xs c)) (started c)
      end
  | Panicked p c =>
      match on_panic cfg with
      | Some ph =>
          let c' := set_xs xctx eff (with_data (data_set k_recover (DPanic p) (data (xs c))) (xs c)) c in
          match run_hook (hookfuel ph) ph c' with
          | Halt c3 => Done (if fixed then final_commit (xs c3) else xs c3) (started c3)
          | Panicked p' c3 => Escaped p' (xs c3) (started c3)
          | Run _ _ => OutOfFuel
          end
      | None => Escaped p (xs c) (started c)
      end
  | Run _ _ => OutOfFuel
  end.
Definition handle_request := handle_request_gen true.

(* ServeHTTP: take a context from the pool (in whatever state), Init, dispatch *)
Definition serve (cfg : rcfg) (is_options : bool) (sc : list nat) (t : target) (pooled : pctx) : outcome1 :=
  handle_request cfg is_options t (p_x (ctx_init sc pooled)).
