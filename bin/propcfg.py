"""Per-property configuration of bin/check (case budgets, expected theorems, constants to compare,
trusted base, evidence wording)."""
import hashlib, os, re, time

COMMON_TRUSTED = [
    "Coq 8.16.1 kernel (coqc; vm_compute used for Examples/refuted witnesses; no native_compute; no kernel flags changed)",
    "no axioms declared in /verif/coq; Print Assumptions of every property theorem is parsed on every run",
    "extraction to OCaml 4.13.1 with ExtrOcamlBasic only (Extract Inductive bool/option/unit/list/prod/sumbool/sumor, Extract Inlined Constant andb/orb); nat/N/Z/positive stay inductive; ocaml/driver.ml, sexp.ml, conv.ml (hand-written reader/printer)",
    "Go harness /verif/harness (generators, handler interpreters, canonicalisers), Go 1.23 toolchain; built against /repo's working tree with -tags verif (hook file verif_hooks.go)",
    "differential correspondence model-vs-implementation is testing, bounded by its generator; the for-all claim rests on the Coq theorems about the model",
]

def _coq_tree_hash(coq):
    h = hashlib.sha1()
    for d, _, names in sorted(os.walk(coq)):
        for n in sorted(names):
            if n.endswith(".v"):
                h.update(n.encode()); h.update(open(os.path.join(d, n), "rb").read())
    return h.hexdigest()

def thorough_common(ctx):
    """coqchk once per Coq tree (stamp keyed by the hash of coq/**/*.v)."""
    out = {"coverage": {}}
    coq, sh, root = ctx["coq"], ctx["sh"], ctx["root"]
    stamp = os.path.join(root, "work", "coqchk.stamp")
    with ctx["Lock"](".coqchk.lock"):
        hv = _coq_tree_hash(coq)
        prev = open(stamp).read().split("\n", 1) if os.path.exists(stamp) else ["", ""]
        if prev[0] == hv:
            out["coverage"]["coqchk"] = "cached for this Coq tree: " + prev[1][:1500]
            return out
        mods = []
        for l in open(os.path.join(coq, "_CoqProject")):
            l = l.strip()
            if l.endswith(".v"):
                mods.append("Rux." + l[:-2].replace("/", "."))
        t0 = time.time()
        rc, txt = sh(["coqchk", "-silent", "-o", "-Q", coq, "Rux"] + mods, cwd=coq, timeout=7200)
        summary = txt[-3000:]
        if rc != 0:
            out["problem"] = "coqchk failed (rc=%d): %s" % (rc, summary[-1500:])
            return out
        axioms = re.findall(r"^\s*\* Axioms:(.*?)(?=^\s*\* |\Z)", txt, re.S | re.M)
        res = "coqchk ok in %.0fs; %s" % (time.time() - t0, " ".join(summary.split())[:1500])
        open(stamp, "w").write(hv + "\n" + res)
        out["coverage"]["coqchk"] = res
    return out

def thorough_extra(ctx):
    out = thorough_common(ctx)
    if out.get("problem"): return out
    rep = coq_replay(ctx)
    if rep.get("problem"):
        out["problem"] = rep["problem"]
    out["coverage"].update(rep.get("coverage", {}))
    return out

PROPS = {}

PROPS["C14"] = dict(
    claim=dict(
        text="Machine-checked proof (Coq 8.16): the implementation-shaped cache model (recency list of nodes with identities + hash index, transcribed from route_cache.go) refines, for every capacity and every history of Set/Get/Has/Delete/Len, the abstract LRU recency list truncated to its capacity (C14_refines_spec, by an index/list consistency invariant); the clauses of the property (bound, no duplicates, MRU after set/get, exact LRU eviction, replace, delete-only) are theorems about that list. End to end (SysEnd.v): on a router built by ANY registration program with caching on and capacity >= 1, after any history, a request answered by a dynamic route leaves the key of the lookup that hit (method ++ normalised path; GET ++ path for a HEAD request answered by the GET route) as the most recent key, with its route and parameters, and the cache within its bounds (C14_end_to_end_key, C14_end_to_end_key_table). Tie to the code: on every run the extracted model and rux.NewCachedRoutes / a caching router are run on the same generated histories and compared op by op (results and key order through a verif-tag accessor).",
        note="Trusted: Coq kernel, ExtrOcamlBasic extraction, OCaml driver, Go harness; container/list, Go map and RWMutex are modelled (operations atomic), not verified. The correspondence is differential testing bounded by its generator.",
        technique="Coq proof: refinement of node-list+index cache to an LRU recency list by invariant, for all histories; extracted model vs implementation differential check"),
    n=dict(quick=6000, thorough=60000),
    consts=[],
    theorems=["C14_router_key", "C14_refines_spec", "C14_bound_nodup", "C14_set_mru", "C14_get_mru", "C14_evict_lru", "C14_replace", "C14_delete_only", "C14_end_to_end_key", "C14_end_to_end_key_table"],
    rule="cases = (capacity 0..9, history of 1..60 Set/Get/Has/Delete/Len over 2..6 keys) against rux.NewCachedRoutes, and request histories "
         "against a caching router; observed after every op: result and key order (verif-tag accessor). Non-trivial = distinct history with at least "
         "one Set into a full cache and one hit (cache part) or at least one dynamic hit served from the cache after an eviction (router part).",
    exhaustive_note="thorough additionally enumerates ALL histories of length <= 4 over the 10-op alphabet {set a/b with 2 values, get a/b, del a/b, has a, len} for capacities 0,1,2",
    trusted_base=["modelled, not verified: container/list and the Go map (as a node list with identities + association list), sync.RWMutex (operations atomic)"],
    assumptions=["cache operations are atomic (they run under the cache mutex); concurrency is C03's subject"],
)

PROPS["C11"] = dict(
    claim=dict(
        text="Machine-checked proof (Coq 8.16): formatPath (transcribed with its index accesses as explicit panic outcomes) equals, for every string and both StrictLastSlash settings, '/' ++ core(s) (C11_normal_form) - hence it is total (C11_total), registration through simpleFmtPath and group prefixes normalises exactly like lookup (C11_reg_lookup, C11_registered_path for every nesting of prefixes), two spellings reach the same key iff they have the same core (C11_classes, C11_reach) and the normal form has the documented shape (C11_shape). End to end (SysEnd.v): any router looks a request up through the normal form of its path only - two spellings with the same normal form get the same answer and leave the same router, cache included, behind; so on every router built by a registration program after any history (C11_lookup_by_normal_form, C11_end_to_end). Tie to the code: extracted model and closed-form spec are compared with Route.Path(), Router.Match and ServeHTTP (decoded and escaped path) on generated and, in the thorough tier, exhaustively enumerated short strings - static and dynamic routes, cold and with the route cache warmed by the canonical spelling (every lookup repeated).",
        note="Trusted: Coq kernel, extraction, driver, harness; strings.TrimSpace/TrimLeft/TrimRight are modelled on code points (unicode.IsSpace set transcribed), URL decoding is net/url's (an input to the model).",
        technique="Coq proof: closed-form characterisation of the normaliser for all strings; extracted model vs implementation differential check"),
    n=dict(quick=10000, thorough=100000),
    consts=[],
    theorems=["C11_total", "C11_normal_form", "C11_reg_lookup", "C11_registered_path", "C11_classes", "C11_reach", "C11_shape", "C11_strict_distinguishes", "C11_lookup_by_normal_form", "C11_end_to_end", "C11_intercept_ignores_request_path"],
    rule="case = (StrictLastSlash, UseEncodedPath, 0..3 nested group prefixes, registered static path, request path as decoded and escaped "
         "string) over the alphabet {/ space tab . a b %2F %20 U+00A0}; request paths are mostly re-spellings / single edits of the registered "
         "path. Observed: Route.Path(), Router.Match hit, ServeHTTP status. Non-trivial = distinct case that hits through a different spelling, "
         "or where Match and ServeHTTP differ because of the encoded path.",
    exhaustive_note="thorough additionally enumerates every string of length <= 5 over {/, space, a, ., tab} (3906 strings) as registered path, as request path against /a, and under a group, in both strict modes",
    trusted_base=["modelled, not verified: strings.TrimSpace/TrimLeft/TrimRight (as dw/de on code points, unicode.IsSpace set transcribed), net/url path decoding (input to the model)"],
    assumptions=["paths are valid UTF-8 for the theorems' closed form; invalid bytes are passed through as pseudo code points in the tie"],
)

PROPS["C08"] = dict(
    claim=dict(
        text="Machine-checked proof (Coq 8.16): for every sequence of writer operations (status settings incl. non-positive codes, header settings, writes under any short-write script of the underlying writer, flushes, http.Error/Redirect helpers, snapshots) followed by the dispatcher's final commit, the model of responseWriter emits exactly WH(spec_status) followed by the accepted bytes and flushes in order (C08_log, C08_one_commit), spec_status is the last positive status up to the first committing op (C08_status), Length ends as the accepted byte count, and an empty chain still commits once with 200 (C08_empty). End to end through the whole-router function (route table + lookup + chain assembly + chain machine + panic recovery + hooks + final commit): every request sys_serve completes, for any table, handler programs and hooks, commits the header exactly once and first, an escaped panic leaves either nothing or a header first, and so does every request of every history (C08_end_to_end_one_commit, C08_end_to_end_escaped, C08_history_one_commit). Tie to the code: the extracted model and spec are compared with the call log of a recording ResponseWriter+Flusher driven through Router.ServeHTTP with the ops spread over a middleware chain.",
        note="Trusted: Coq kernel, extraction, driver, harness; net/http's http.Error / http.Redirect are modelled by their WriteHeader/Write calls; headers are outside this property's projection; panicking chains are C09.",
        technique="Coq proof: induction over operation sequences with committed/uncommitted invariant; extracted model vs implementation differential check"),
    n=dict(quick=8000, thorough=60000),
    consts=[],
    theorems=["C08_log", "C08_one_commit", "C08_status", "C08_empty", "C08_end_to_end_one_commit", "C08_end_to_end_escaped", "C08_history_one_commit"],
    rule="case = (short-write script of the underlying writer, chain of 1..4 handlers each with writer ops before/after Next): ops drawn from "
         "SetStatus(-1,0,1xx..5xx), SetHeader, Write, Flush, http.Error, http.Redirect(POST), snapshot; executed through Router.ServeHTTP against a "
         "recording ResponseWriter+Flusher. Observed: the underlying call log and StatusCode()/Length() snapshots. Non-trivial = distinct case with a "
         "status setting and a committing op.",
    exhaustive_note="thorough additionally enumerates all op sequences of length <= 4 over the 7-op alphabet {st 404, st 0, st 201, write, flush, http.Error, snapshot} with a 1-byte short write first",
    trusted_base=["modelled, not verified: net/http http.Error (= WriteHeader + one Write of msg+newline) and http.Redirect on a non-GET request (= Location header + WriteHeader); headers are not part of this property's projection"],
    assumptions=["handlers reach the writer through c.Resp / c.SetStatus (not through RawWriter())", "the chain ends normally (panics are C09's subject)"],
)

_RP_TRUSTED = ["modelled, not verified: net/http request plumbing (httptest-free direct ServeHTTP calls), http.Error/http.NotFound (= WriteHeader + one Write), sync.Pool (any earlier context or a fresh one)",
               "spec judges for the rp cases (ocaml/rp.ml) are hand-written OCaml on top of the extracted den_block / onion functions"]

PROPS["C12"] = dict(
    claim=dict(
        text="Machine-checked proof (Coq 8.16): for every registration program (arbitrarily nested Group calls, Router.Use at any point, routes with variadic and later middleware, NotFound/NotAllowed) the imperative save/extend/run/restore of router.go registers exactly the lexically scoped routes (C12_scoping, C12_program: path = normalised concatenation of enclosing prefixes, middleware = enclosing group middleware in effect at registration, outermost first), Group restores prefix and group middleware (C12_restore), Use inside a group is local to later routes of that group (C12_use_local) and siblings are unaffected (C12_sibling_unaffected). Proof by a nested induction principle over programs. Tie to the code: generated programs are executed against a real Router; Route.Path(), len(Route.Handlers()), the router's scope state after the program (verif accessor) and the handler trace of a request to every route are compared with the extracted model and with the denotation. Added later: (a) the route table built from a program (Sys.sys_build) holds, route id by route id, exactly the lexically scoped routes, and the global middleware are the top-level Use statements (C12_router_routes, C12_router_globals); (b) the same registration on a SLICE HEAP (in-place append into spare capacity, Group saving/restoring slice headers, combineHandlers copying, caller slices with spare capacity, any growth policy) computes exactly the list-level result and panics exactly when it does (C12_heap_refines, C12_heap_routes, by an ownership / prefix-view invariant), while the no-copy combineHandlers is refuted on that model (C12_legacy_aliasing_refuted).",
        note="Trusted: Coq kernel, extraction, driver, harness. Slices are modelled as immutable lists (combineHandlers copies at registration; aliasing of the group slice is exercised by the tie: handler traces of every route are compared after the whole program ran). Controller/Resource registrations are Group calls (Resource is C16).",
        technique="Coq proof: imperative registration = lexical denotation, by nested structural induction over all programs; extracted model vs implementation differential check"),
    n=dict(quick=3000, thorough=40000),
    consts=[],
    theorems=["C12_scoping", "C12_restore", "C12_program", "C12_use_local", "C12_sibling_unaffected"],
    rule="case = registration program (groups nested to depth 0..5 with prefixes written /gN, gN or /gN/, sibling groups, Use between routes, routes before/inside/"
         "between/after groups, variadic and later route middleware) + one request per registered route. Observed: Route.Path(), len(Route.Handlers()), group "
         "scope after the program, enter/leave trace per request. Non-trivial = distinct program with at least one group and two routes.",
    trusted_base=_RP_TRUSTED,
    assumptions=["prefixes are clean non-root segments as in the property's quantifier (spelled with or without leading/trailing slash)"],
)

PROPS["C04"] = dict(
    claim=dict(
        text="Machine-checked proof (Coq 8.16) over a small-step stack machine for Context.Next with the int8 cursor written out: for every chain of at most 63 handlers calling Next at most once, effects happen in onion order and every handler starts exactly once (C04_onion, generic in the effect type, so it also orders writer operations); for arbitrary handler programs (aborts, panics, any ops) with at most one Next each, no handler ever starts twice and the cursor never crashes (C04_each_at_most_once, C04_no_cursor_crash, by a reachable-state invariant); the chain is global ++ route middleware ++ main resp. global ++ fallback handlers (C04_chain_*), and route middleware is the lexically scoped list (C04_route_middleware). End to end (Sys.v: registration program -> route table -> QuickMatch -> dispatcher as one extracted function): whatever the lookup of the built router answers, the chain that runs is globals ++ groups (outermost first) ++ route's own ++ main, resp. globals ++ fallback handlers (C04_chain_of_lookup/_not_found/_not_allowed); the dispatcher's fuel always suffices for well-behaved chains (C04_dispatch_onion); and for programs of static routes the whole statement is read off the program text, after any earlier requests (C04_end_to_end). K2 (Next twice in 43 middleware wraps the cursor) is kept as a refuted witness and a known finding. Tie to the code: the model that is run against rux IS that extracted function (sys_build/sys_serve); generated registration programs x handler behaviours (no/one/two Next) x requests incl. 404/405 probes; traces, response logs compared with the extracted model; the judge recomputes the onion trace from the denoted chain.",
        note="Trusted: Coq kernel, extraction, driver, harness. Handlers calling Next any number of times: every handler still starts at most once in any chain of at most 63 handlers (C04_next_many_each_once), and without Abort ops the cursor cannot crash while chain length + number of Next ops <= 127 (C04_next_many_no_crash); beyond that bound it does (K2). PanicsHandler middleware is outside the model (DESIGN O1).",
        technique="Coq proof: onion-order theorem and reachable-state invariant of a stack machine with int8 cursor; extracted model vs implementation differential check"),
    n=dict(quick=3000, thorough=40000),
    consts=["abort-index"],
    theorems=["C04_chain_route", "C04_chain_not_found", "C04_chain_not_allowed", "C04_route_middleware", "C04_onion", "C04_each_at_most_once", "C04_no_cursor_crash", "C04_next_many_each_once", "C04_next_many_no_crash"],
    rule="case = registration program (nested groups, Use at top level / in groups / after routes, variadic and later route middleware, custom or default "
         "NotFound/NotAllowed) x per-handler behaviour (no Next / once / twice, extra events) x one request per route + 404 + 405/OPTIONS probes. Observed: "
         "ordered enter/leave trace, underlying writer log, escaped panic. Non-trivial = distinct program with a group and two routes.",
    trusted_base=_RP_TRUSTED,
    assumptions=["chains within the documented limit (length <= 63)"],
)

PROPS["C05"] = dict(
    claim=dict(
        text="Machine-checked proof (Coq 8.16): for every chain of at most 63 handlers calling Next at most once and every position and flavour of the aborting handler, from the moment an Abort / AbortThen / AbortWithStatus op executes in a state reachable from the start of the request no further handler ever starts, even if Next is called afterwards, and the cursor never crashes (C05_no_later_start, C05_no_later_start_status; by the reachable-state invariant index+debt<=127 whose worst case 63+1+63 is exactly the int8 maximum); suspended handlers resume and apply exactly their remaining effects (C05_suspended_resume); IsAborted is true from then on (C05_is_aborted_after, C05_aborted_stable); AbortWithStatus records its status like SetStatus (C05_status, with C08); registration enforces the limit (C05_limit); end to end, for the chain the whole-router function assembles for a resolved request, the started-handler list the request outcome reports is the list at the moment of the abort, through the rest of the chain, the OnError/OnPanic hooks and the final commit (C05_end_to_end). K1 (IsAborted true without abort when the cursor reaches 63 by nesting, chains >= 32) is a refuted witness and a known finding. Tie to the code: chains of every length 1..63 x abort position x before/after/without Next x other handlers with/without Next, with IsAborted samples; trace, IsAborted values and status compared with the extracted model; judge checks the clauses on the implementation's trace.",
        note="Trusted: Coq kernel, extraction, driver, harness. 'IsAborted is false before the first abort' is proved for chains of at most 31 handlers (C05_is_aborted_before: the cursor stays below 63); it is false of the code for longer chains whose nesting reaches the sentinel (K1). Chains longer than 63 (only reachable through global middleware) are outside the property's quantifier (DESIGN O2).",
        technique="Coq proof: step-preserved potential invariant of the chain machine (abort containment) + termination/resume theorem; extracted model vs implementation differential check"),
    n=dict(quick=3000, thorough=20000),
    consts=["abort-index"],
    theorems=["C05_no_later_start", "C05_no_later_start_status", "C05_suspended_resume", "C05_is_aborted_after", "C05_is_aborted_before", "C05_aborted_stable", "C05_status", "C05_limit", "C05_end_to_end"],
    rule="case = one route behind n-1 middleware split over global / group / route (chain length 1..63), aborting handler at a random position, flavour "
         "Abort/AbortThen/AbortWithStatus(+later SetStatus), before / after / without Next, other handlers calling Next with probability 3/4, IsAborted samples, "
         "occasional body writes. Observed: trace with marker before the abort, IsAborted values, writer log. Non-trivial = distinct case with chain length >= 2.",
    exhaustive_note="thorough additionally enumerates every chain length 1..63 x every position of the aborting handler x {before, after, without Next} (plain Abort)",
    trusted_base=_RP_TRUSTED,
    assumptions=["chains within the documented limit (length <= 63)", "handlers call Next at most once (the property's quantifier); more is K2/C04"],
)

PROPS["C09"] = dict(
    claim=dict(
        text="Machine-checked proof (Coq 8.16) over the dispatcher model (chain machine + OnPanic/OnError hooks + final commit): with an OnPanic hook, for every chain, panic position (any op of any handler, fallback handlers, the OnError hook) and target, the panic never escapes and the underlying writer receives exactly one WriteHeader (C09_contained, by a writer-log invariant carried through every machine step); the hook runs exactly once on the context as the panic left it with the value under _recoverResult, nothing runs afterwards, then the header is committed (C09_hook_once); without a hook the same value propagates (C09_propagates); the next request is served from a pristine context and the router configuration is never written by a request (C09_healthy). F09 is kept as a refuted witness. Tie to the code: panics injected at generated positions x hook kinds x follow-up requests; escaped value, hook count, recovered value, writer log compared with the extracted model; every request is also served on a freshly built identical router and the two observations must coincide (twin oracle).",
        note="Trusted: Coq kernel, extraction, driver, harness. The theorems assume hooks that perform effects only; fuel exhaustion of the executable dispatcher is excluded by hypothesis (r <> OutOfFuel) - the harness never observes it. panic(nil) excluded. 'Router stays healthy' is a theorem only in the sense that the model's router state is an immutable input; its substance is the twin oracle of the tie.",
        technique="Coq proof: case analysis of the dispatcher + writer-log invariant over machine steps; extracted model vs implementation differential check with fresh-router twin oracle"),
    n=dict(quick=3000, thorough=30000),
    consts=[],
    theorems=["C09_contained", "C09_hook_once", "C09_propagates", "C09_healthy"],
    rule="case = router with 0..2 global, 0..1 group, 0..2 route middleware, custom or default NotFound/NotAllowed, optional OnError hook; one handler "
         "(any middleware, main, fallback handler, or the OnError hook) panics before or after Next; OnPanic hook in {none, nothing, status, status+body, "
         "hook that panics}; 1..3 follow-up requests; every request is also served as first request of a freshly built identical router (twin oracle). "
         "Observed: escaped value, trace incl. hook event and its snapshot of _recoverResult, writer log. Non-trivial = distinct case where the panic was reached.",
    trusted_base=_RP_TRUSTED,
    assumptions=["panic(nil) is excluded (Go-version dependent)", "hooks perform effects only (status, body, events, snapshots); a hook calling Next is outside the model"],
)

PROPS["C10"] = dict(
    claim=dict(
        text="Machine-checked proof (Coq 8.16): Context.Init/Reset (transcribed field by field) maps every pooled context state - any data, params, errors, cursor, handler slice, writer state, replaced Resp or Req - to the fresh context (C10_init_pristine, C10_first_snapshot), hence serving a request does not depend on the pooled context it gets and the k-th request of any history behaves as the first request on a fresh router (C10_history). The theorem is easy; its value is in the tie: histories of requests whose handlers perform every context mutation are run with GC disabled so that contexts are really reused (reuse is counted and reported), the first handler of every request snapshots the context, and every request is also served as first request of a freshly built identical router: both observations must coincide and equal the model's.",
        note="Trusted: Coq kernel, extraction, driver, harness. A field added to rux.Context is invisible to the model; the field list of Context is dumped from the built package on every run and compared with the pinned list (bin/fields.expected). sync.Pool is modelled as 'any earlier context or a fresh one'. Requests re-dispatched through Router.HandleContext (F16) are outside the model.",
        technique="Coq proof: Init maps every context state to the fresh one; differential check with real context reuse and fresh-router twin oracle"),
    n=dict(quick=3000, thorough=30000),
    consts=["context-fields"],
    theorems=["C10_init_pristine", "C10_first_snapshot", "C10_history"],
    rule="case = history of 3..8 requests (static routes, 404, 405) on one router whose handlers perform context mutations (Set, AddError, Params write, replace "
         "Resp, replace Req, status, body, flush, Abort, AbortWithStatus, panic with/without OnPanic, OnError); the first global middleware of every request "
         "snapshots Data/Params/Errors/IsAborted/StatusCode/Length/Resp identity/Req identity; GC is disabled so the pool really reuses contexts; every request "
         "is also served as first request of a freshly built identical router (twin oracle). Non-trivial = distinct history in which a context was really reused.",
    trusted_base=_RP_TRUSTED,
    assumptions=["the modelled context fields are those of rux.Context at the pinned commit; the struct's field list is compared on every run (constants item context-fields)",
                 "dynamic-route parameters are exercised through Params writes here and through C02/C07 for matching"],
)

_RT_TRUSTED = ["modelled, not verified: Go's regexp engine (leftmost-first backtracking semantics on the parser subset of RxParse.v; patterns whose regex text is outside the subset are reported 'unsupported' and only explored by the direct oracle), strings.NewReplacer (leftmost, argument order), Go maps (association lists)",
               "spec judges for the rt cases (ocaml/rt.ml) are hand-written OCaml on top of the extracted parse_pat / pat_matches / pat_params / spec_select functions"]

PROPS["C01"] = dict(
    claim=dict(
        text="Machine-checked proof (Coq 8.16): for every table of grammar-level routes (static paths and patterns with literals, {name}, {name:regex}, global variables, nested optional tails; any method sets), every '/'-free method and every normalised path, the router's three-tier lookup (static map keyed method+path, first-node index with literal-prefix filter, residual list; routes stored by id in Go-map-like association lists) selects exactly what the documented rule prescribes - exact static path first, then the earliest registered matching pattern with a complete literal first segment, then the earliest other matching pattern (C01_selection); the selected route allows the method and its pattern matches the whole path in the declarative semantics, and 'no route' is reported only if no registered route does (C01_sound, C01_complete, via soundness+completeness of the backtracking matcher for the declarative regex semantics); the same holds with the cache on (C01_cached). Tie to the code: generated overlapping tables x probes (instantiations, single-edit mutations, hostile strings); the implementation's selection is compared with the extracted string-level model (pattern compiler + regex parser + tables) and judged by spec_select on the grammar-level AST; on every generated pattern an executable link check compares the string-level compiler with the grammar-level one (start, first node, variable names). Added later: the string-level router (what AddRoute does with the pattern TEXT: compile_dyn + regex parser - the model that is executed against rux) is proved to register every table of static routes and printable patterns and to answer every lookup (route id and parameters, any options, cache included) exactly like the grammar-level router, hence to select exactly spec_select (C01_text_link, C01_string_level_registers, C01_string_level_lookup, C01_string_level_selection; RoundTrip.v, TableLink.v). End to end: a router built by a registration program (groups, prefixes, middleware) whose routes are a printable table answers every lookup after any request history, cache on or off, with the spec ladder, and dispatches to exactly that route of the program text with the documented chain (C01_end_to_end_ladder, C01_end_to_end_dispatch; SysMore.v).",
        note="Trusted: Coq kernel, extraction, driver, harness. The theorem is about routers built from the grammar-level AST (PatTable.build); the string-level front end (strings.Replacer-style text assembly + regexp.MustCompile) is tied to it by the executable link check and by the probes, not by proof (the parse/print round trip was not attempted). Go's regexp engine is modelled (leftmost-first backtracking) on the parser subset.",
        technique="Coq proof: three-tier lookup = priority rule over a declarative pattern semantics (tier characterisation + prefix/first-node soundness + matcher soundness/completeness); extracted model vs implementation differential check"),
    n=dict(quick=3000, thorough=40000),
    consts=["any-methods", "global-vars", "any-match"],
    theorems=["C01_selection", "C01_sound", "C01_complete", "C01_cached", "C01_text_link", "C01_end_to_end_ladder", "C01_end_to_end_dispatch"],
    rule="case = table of 1..10 routes (static paths and patterns from an AST generator: literal segments over a small shared pool incl. a.b / v1.0, {v}, "
         "{v:re} with 12 regex kinds, global variables, literal prefix/suffix inside a segment, 0..2 nested optional tails), any subset of the 9 methods, "
         "optional StrictLastSlash / cache; 12 Router.Match probes: instantiations of the table's own patterns (85% valid values), single-edit mutations, a few "
         "hostile strings. Observed: which route is selected. Non-trivial = distinct table with >= 2 routes and >= 2 hits.",
    trusted_base=_RT_TRUSTED,
    assumptions=["route tables within the documented grammar (definitions outside it are skipped by the spec judge and still compared with the model)"],
)
PROPS["C02"] = dict(
    claim=dict(
        text="Machine-checked proof (Coq 8.16) over the grammar-level pattern AST (literals, {name}, {name:regex}, global variables, nested optional tails) and the backtracking matcher in Go's leftmost-first order: for every pattern whose variable regexes have no capture group and every path the compiled expression matches, the captures form a valid decomposition of the path - literals verbatim, every variable of a present part a word of its regex, variables of absent optional parts empty - and capture i is the value of variable i (C02_captures, via capture-threaded soundness of the matcher); handlers receive exactly the variable names bound to those values (C02_params); a pattern matches exactly the decomposable paths (C02_matches_iff); static hits carry nil parameters (C02_static); the cache returns the same parameters as the uncached lookup (C02_cached). End to end through the whole-router function (SysEnd.v): on a router built by a registration program with a printable table, after any history and with the cache on or off, the parameters the handlers of the selected route receive are none for a static route and exactly the pattern's decomposition of the normalised path for a dynamic one (C02_end_to_end, C02_end_to_end_values). Tie to the code: for the route the implementation selected (Router.Match and Context.Params inside handlers, cache on/off, repeated requests) the parameters are compared with pat_params of that route's pattern.",
        note="Trusted: Coq kernel, extraction, driver, harness; Go's regexp is modelled by the backtracking matcher on the parser subset. Uniqueness of the decomposition is proved for segment-shaped item lists (every variable slash-free and delimited by the end or a literal starting with '/': C02_unique); for other patterns the judge compares with the leftmost-first captures, which is what Go returns. Distinct variable names are assumed for C02_params.",
        technique="Coq proof: capture soundness of a backtracking regex matcher lifted to route patterns with optional tails; assume-guarantee differential check against the implementation"),
    n=dict(quick=3000, thorough=40000),
    consts=["global-vars", "any-match"],
    theorems=["C02_captures", "C02_params", "C02_unique", "C02_matches_iff", "C02_static", "C02_cached", "C02_end_to_end", "C02_end_to_end_values"],
    rule="case = table of 1..6 routes as for C01, cache on (capacity 0..4) in half of the cases; probes through Router.Match and ServeHTTP (Context.Params inside "
         "the handler), a third of them repeated so that cache hits occur. For the route the implementation selected, its parameters are compared with the "
         "captures of that route's pattern. Non-trivial = distinct table with >= 2 routes and >= 2 hits.",
    trusted_base=_RT_TRUSTED,
    assumptions=["assume-guarantee: route selection is taken from the implementation (C01 decides it)"],
)
PROPS["C06"] = dict(
    claim=dict(
        text="Machine-checked proof (Coq 8.16): for every grammar-level table, every combination of StrictLastSlash / HandleMethodNotAllowed / HandleFallbackRoute, every '/'-free method and every path, QuickMatch equals the documented decision list: direct match; else for HEAD the GET match; else the '/*' route registered for the method when fallback handling is on; else not-allowed with the allowed set equal to exactly the other methods that match, when 405 handling is on and that set is non-empty; else not found (C06_order, on top of C01_selection); caching does not change the resolution (C06_cached); with InterceptAll(q) every request resolves exactly as a request for q on the same router without the option (C06_intercept, C06_intercept_as_request); the intercept path is normalised like a request path (F14 refuted witness for the old code); the default handlers are 405 + sorted Allow (200 for OPTIONS) and 404 (C06_default_*). End to end (SysEnd.v): on a router built by a registration program, after any history, a 'not allowed' / 'not found' answer of the ladder is dispatched to the NotAllowed / NotFound target with the chain globals ++ (custom handlers or the default one), and with no custom handlers the response is 405 + the http.Error text (200, empty body for OPTIONS) with the allowed methods in the context, resp. 404 (C06_end_to_end_*). Tie to the code: tables x random option combinations (incl. caching, InterceptAll in several spellings, '/*' routes per method) x custom/default fallback handlers x probes with HEAD, OPTIONS, unknown methods through Router.Match and ServeHTTP; resolution, status, Allow header and who ran are compared with the extracted model and judged by the ladder computed from the grammar-level table. Added later: C06_string_level_order - the same ladder for the string-level router built from pattern texts, on printable tables (TableLink.v).",
        note="Trusted: Coq kernel, extraction, driver, harness; as C01 for the string-level front end. C06_order is stated for routers without caching and InterceptAll; caching is covered by C06_cached/C07, InterceptAll by C06_intercept plus the correspondence.",
        technique="Coq proof: QuickMatch = decision list over spec_select; extracted model vs implementation differential check"),
    n=dict(quick=3000, thorough=40000),
    consts=["any-methods"],
    theorems=["C06_order", "C06_cached", "C06_intercept", "C06_intercept_as_request", "C06_default_405", "C06_default_404", "C06_end_to_end_not_allowed", "C06_end_to_end_not_found", "C06_end_to_end_405", "C06_end_to_end_404"],
    rule="case = table as for C01 (+ '/*' routes for all / one / two methods) x random combination of StrictLastSlash, HandleMethodNotAllowed, HandleFallbackRoute, "
         "caching, InterceptAll(p in several spellings) x custom or default NotFound/NotAllowed x 14 probes (table methods, HEAD, OPTIONS, unknown/lower-case "
         "methods) through Router.Match and ServeHTTP. Observed: resolution (route / allowed set / not found), status, Allow header, who ran. "
         "Non-trivial = distinct table with >= 2 routes and >= 2 hits.",
    trusted_base=_RT_TRUSTED, assumptions=[],
)
PROPS["C07"] = dict(
    claim=dict(
        text="Machine-checked proof (Coq 8.16) over the router model (static tier, LRU cache, first-node indexed and residual dynamic tiers, QuickMatch ladder): under the invariant 'every cache entry is what the dynamic tiers answer for its key and its key is no static key' (coherent), a lookup, a whole request resolution (HEAD->GET, '/*' fallback, allowed-method probes) and every history of requests answer exactly like the same router with caching disabled, for every capacity including 0 and 1, after evictions and for repeats (C07_match, C07_quick_match, C07_transparent); fresh routers are coherent and registration keeps the cache empty; method+path keys are injective for '/'-free methods (C07_key_injective). Tie to the code: every step of generated histories (URL pools with repetition, capacities 0,1,2,3,1000) is executed on a caching router and on a non-caching twin built from the same definitions; results, parameters and responses must coincide.",
        note="Trusted: Coq kernel, extraction, driver, harness; methods containing '/' are outside the quantifier (cannot arrive through net/http); handlers treat Params as read-only (the property's quantifier).",
        technique="Coq proof: coherence invariant of the cache over all request histories (refinement to the cache-free lookup); twin-router differential check"),
    n=dict(quick=1200, thorough=20000),
    consts=[],
    theorems=["C07_match", "C07_quick_match", "C07_transparent", "C07_initial", "C07_key_injective"],
    rule="case = table as for C01, cache capacity in {0,1,2,3,1000}, optional 405 handling / fallback / strict; history of 20..60 requests (Match and ServeHTTP) drawn "
         "with repetition from a pool of 2..8 URLs (incl. HEAD); every step is executed on the caching router and on a non-caching twin. "
         "Non-trivial = distinct history with at least one eviction and one repeated cache state.",
    trusted_base=_RT_TRUSTED, assumptions=["handlers treat Params as read-only and registration is finished before the first request (the property's quantifier)"],
)
PROPS["C13"] = dict(
    claim=dict(
        text="Machine-checked proof (Coq 8.16): each rejected class makes registration panic in the model - nil handler, no method, a method that is not exactly one of the nine, options after routes, 63 or more handlers, an uncompilable expression, a number of capturing groups different from the number of variables, an optional part not at the end (C13_rejects_*); every router reachable by accepted registrations is well formed (ids within range, group count = name count: C13_wf_initial, C13_wf_preserved) and on a well-formed router no method string and no path string makes QuickMatch panic, with any options incl. caching without routes (C13_total_lookup, using totality of formatPath). F05 is kept as a refuted witness. End to end (SysEnd.v): on a router built by a registration program with a printable table every request - any '/'-free method, any path text - after any history is answered: no lookup panic, no unsupported expression, no route id outside the table (C13_end_to_end_total, _history). Options (Options.v, after repair F21): however the caching options are applied - New / WithOptions batches, option functions called directly with the router, before or after routes, in any order - a lookup finds a route-cache container whenever caching is on, with the capacity configured last (C13_options_container, C13_options_capacity); before the repair a directly applied EnableCaching left it nil (C13_legacy_F21_refuted). Tie to the code: a malformed-definition stream (incl. handler counts around 63/127/128/255/256) is registered against the real router, accept/reject compared with the model where the regex is inside the parser subset; for all accepted definitions hostile lookups (empty, white space, non-UTF-8, long) must not panic (direct oracle, independent of the model).",
        note="PARTIAL: the theorem covers pattern strings whose regex text is inside the modelled syntax subset (RxParse.v); full Go regexp syntax is only explored by the direct no-panic oracle. Trusted: Coq kernel, extraction, driver, harness; Go regexp modelled.",
        technique="Coq proof: well-formedness invariant of the router tables implies panic-free lookup; rejection lemmas; differential + direct no-panic oracle"),
    n=dict(quick=6000, thorough=60000),
    consts=["any-methods", "abort-index"],
    theorems=["C13_rejects_nil_handler", "C13_rejects_unknown_method", "C13_rejects_capturing_group", "C13_wf_preserved", "C13_total_lookup", "C13_end_to_end_total", "C13_end_to_end_total_history", "C13_options_container", "C13_options_capacity", "C13_legacy_F21_refuted"],
    rule="case = 0..3 well-formed routes + 0..4 definitions from a malformed-pattern stream (unbalanced braces/brackets, capturing groups, optional part not at the end, "
         "uncompilable regexes, stray metacharacters, mutations) with near-miss method names and occasional nil handlers, random options (incl. caching without "
         "routes, InterceptAll), 12 hostile lookups (empty, white-space, non-UTF-8, very long, encoded). Observed: accept/reject per definition, panic per lookup. "
         "Non-trivial = distinct case with accepted and rejected definitions.",
    trusted_base=_RT_TRUSTED, assumptions=[],
)

PROPS["C20"] = dict(
    claim=dict(
        text="Machine-checked proof (Coq 8.16): HTTPBasicAuth's decision, with base64 decoding an arbitrary function, lets a request through iff it carries well-formed Basic credentials (prefix compared case-insensitively, cut at the first colon) and either no account list is configured or the user's password matches; it answers 401 exactly when the credentials are missing or malformed and 403 in every remaining case (C20_auth_allow, C20_auth_401, C20_auth_403); the middleware is a handler program of the chain machine: on deny the request completes and nothing after it starts, for every rest of the chain within the limit (C20_auth_denied); on allow every handler runs (C20_auth_allowed). HTTPMethodOverrideHandler rewrites only POST and only to PUT/PATCH/DELETE, form value before header, case-insensitively, recording POST (C20_override, C20_override_whitelist). The loop of WrapHTTPHandlers builds w1(w2(...(wn router))) for every non-empty wrapper list (C20_wrap, by induction). Tie to the code: the real middleware/handlers are driven with generated account maps and headers (malformed base64, missing colon, empty passwords, wrong scheme case), 9 methods x override values x carriers (query, body, header), wrapper lists of length 1..6 and chains containing a wrapped plain http.Handler; downstream-ran / status / challenge / method seen / original method / enter-leave order are compared with the extracted model (the auth middleware is run through the dispatcher model) and with the specification.",
        note="Trusted: Coq kernel, extraction, driver, harness. base64 decoding, form parsing (Request.FormValue) and net/http's BasicAuth prefix test are modelled (base64 is an arbitrary function in the theorems and an oracle input in the tie). The statement 'nothing downstream runs' rests on C05's abort theorems for the chain machine.",
        technique="Coq proof: iff-characterisation of the gate decisions and induction over wrapper lists; extracted model vs implementation differential check"),
    n=dict(quick=5000, thorough=40000),
    consts=[],
    theorems=["C20_auth_allow", "C20_auth_401", "C20_auth_403", "C20_auth_denied", "C20_auth_allowed", "C20_override", "C20_override_whitelist", "C20_wrap"],
    rule="cases: (a) account map of 0..3 entries (empty users/passwords, colons, non-ASCII) x Authorization header (valid, absent, wrong case, truncated base64, "
         "no colon, other scheme, missing space); (b) 9 methods x override value (PUT/put/Patch/delete/POST/GET/empty/unknown/near-miss) in form field and/or header x "
         "carrier query/body/none; (c) 1..6 wrappers; (d) chain with a wrapped plain http.Handler at a random position. Non-trivial = auth case with accounts "
         "configured or a request that was overridden.",
    trusted_base=["modelled, not verified: encoding/base64 (oracle input), net/http Request.BasicAuth / FormValue, httptest"],
    assumptions=["account maps have distinct user names (Go map literal)"],
)

PROPS["C16"] = dict(
    claim=dict(
        text="Machine-checked proof (Coq 8.16): for every subset of the seven actions visited in any order, every per-action middleware map, base path and mode, Resource (a Group around one AddNamed + Route.Use per implemented action) registers exactly one route per implemented action with the documented methods and name and only that action's middleware, under prefix ++ action path, and nothing else (C16_table, through the lexical-scoping theorem of C12); a different visiting order only permutes the table (C16_order_independent); for every clean prefix the paths are the documented /res, /res/create, /res/{id}, /res/{id}/edit (C16_documented_paths); registration succeeds (C16_accepted); non-pointer / non-struct controllers are rejected (C16_guard). That GET /res/create is served by create and never by show is C01's static-before-dynamic rule, and the lookup tie below checks it. Base paths with path variables (RestOrder.v, after repair F22): all routes of the resource are dynamic then and Resource registers the actions in the canonical order; for every printable pattern prefix, GET of an instance of prefix/create is never handled by Show (C16_create_never_show_dynamic), and is handled by Create when the prefix variables are default ones (C16_create_selected_dynamic, C16_resource_create_before_show; with a variable that spans '/' the Index route may match first); with Show registered first - possible before the repair - it was handled by Show with id=create (C16_legacy_F22_refuted). Tie to the code: 256 code-generated controller types (one per subset, with and without Uses(); plus controllers with action-named methods of the wrong signature, nesting in groups with middleware) are registered through the real Resource in Go's random map order; Routes()/NamedRoutes() and the handler, per-action middleware and Allow header of method x path probes are compared with the extracted model (fixed order) and the documented table. Added later (RestLookup.v): on the string-level router built from the texts Resource registers, for any printable prefix, a request is served by action a exactly when a is implemented, allows the method and the path has a's documented shape, except that GET G/create is served by Create and never by Show (C16_lookup_table, C16_create_never_show), and the serving action does not depend on the order in which Go's map iteration registered the table (C16_lookup_order_independent, C16_lookup_order_independent_resource).",
        note="reflect (MethodByName, type name, Kind) is modelled as inputs. Lookup results for the table are decided by the router model of C01/C06 (extracted and compared on probes), not re-proved here. Trusted: Coq kernel, extraction, driver, harness.",
        technique="Coq proof: Resource's registrations = documented table for every subset and order (via lexical scoping); extracted model vs implementation differential check over all 128 subsets"),
    n=dict(quick=1000, thorough=3000),
    consts=["rest-actions"],
    theorems=["C16_table", "C16_order_independent", "C16_documented_paths", "C16_accepted", "C16_guard", "C16_create_never_show_dynamic", "C16_create_selected_dynamic", "C16_resource_create_before_show", "C16_legacy_F22_refuted"],
    rule="case = one of the 128 controller types (code-generated, one per subset of the seven actions) with or without Uses() (per-action middleware for Index/Show/"
         "Edit/Delete plus a key that is no action), base path in {/, /api/, '', /v1/admin/, api, /a.b/}, occasionally StrictLastSlash, occasionally a non-pointer or "
         "pointer-to-non-struct controller; probes = GET and a random third of the other methods on 10 paths under and next to the prefix. Registration order is Go's "
         "random map order, the model uses a fixed order. Observed: Routes()/NamedRoutes(), who handles each probe, per-action middleware, Allow. "
         "Non-trivial = distinct case with >= 2 actions.",
    exhaustive_note="thorough additionally enumerates all 128 subsets x with/without Uses() x base paths / and /api/ with all 9 methods on 8 paths",
    trusted_base=_RT_TRUSTED + ["modelled, not verified: reflect (MethodByName / type name / Kind guards are inputs of the model), Go map iteration order (the theorem quantifies over orders)"],
    assumptions=[],
)

PROPS["C15"] = dict(
    claim=dict(
        text="Machine-checked proof (Coq 8.16): for every grammar-level pattern without optional parts and every assignment of values that satisfy its variables' regexes, the substituted path matches the pattern with a decomposition having exactly those values (C15_matches); requesting it dispatches to a route - this one, or one C01's rule ranks higher that then also matches (C15_dispatch, from C01's completeness); the reported parameters are a valid decomposition (C15_params) and are exactly the substituted values when every variable is slash-free and delimited by the end or a literal beginning with '/' (C15_values_back, C15_decomposition_unique); GetRoute returns the most recent registration under a name and other names are untouched (C15_get_route, C15_other_names_kept). K3 (trailing white space trimmed by lookup normalisation) and K4 (a value containing another placeholder's text is replaced again) are refuted witnesses and known findings. Tie to the code: named routes x admissible and special values (spaces, non-ASCII, %, %XX, ?, #, &, ;, .., braces) x the three argument styles; the URL built by BuildURL/ToURL is compared with the extracted string-level model of Build, its Path is fed to Router.Match and its String() through http.NewRequest into ServeHTTP; the judge checks substitution, query arguments and route/values on the grammar-level AST; naming-operation sequences are checked against GetRoute. Added later: the string-level Build (after repair F19 one left-to-right pass of a multi-pair replacer) is proved equal to the substitution of the caller's values on every printable pattern without optional parts, for ARBITRARY values - braces and other placeholders' texts included (C15_build_is_subst, C15_built_url_matches; BuildLink.v); Route.NamedTo on any route makes the name yield that route and leaves every other name alone (C15_named_to, C15_named_to_keeps).",
        note="Side condition (stated in the theorems): the substituted path is already normalised (K3). net/url escaping/parsing is not modelled (validated by the tie: ServeHTTP on the parsed URL vs Match on u.Path). The string-level Build (one-pass multi-replacement of the placeholder texts, after repair F19) is tied to the grammar-level substitution by the correspondence, not by proof. Trusted: Coq kernel, extraction, driver, harness.",
        technique="Coq proof: substitution of admissible values lies in the pattern's language; uniqueness of decomposition for segment-shaped patterns; differential check with round trip through the router"),
    n=dict(quick=5000, thorough=40000),
    consts=["global-vars", "any-match"],
    theorems=["C15_matches", "C15_dispatch", "C15_values_back", "C15_params", "C15_get_route"],
    rule="case = (a) table of 1..5 named routes without optional parts (static and dynamic, 12 regex kinds, global variables), one route chosen, values drawn from "
         "each variable's accepted set (for unconstrained variables also spaces, non-ASCII, %, ?, #, &, ;, .., trailing space, brace text, trailing slash; 1/12 "
         "rejected values), 0..2 extra query arguments, argument style M map / key-value pairs / BuildRequestURL builder; the built URL's Path is fed to Router.Match and "
         "its String() through http.NewRequest + ServeHTTP; (b) sequences of 1..4 naming operations (AddNamed, NewNamedRoute+AddRoute, NamedTo on an attached / "
         "unattached route) followed by GetRoute. Non-trivial = build case for a dynamic route.",
    trusted_base=_RT_TRUSTED + ["modelled, not verified: net/url (escaping of u.String() and parsing back: the tie compares ServeHTTP on the parsed URL with Match on u.Path), goutil.String"],
    assumptions=["values satisfy their variable's regex; the substituted path is already normalised (otherwise K3)"],
)

PROPS["C17"] = dict(
    claim=dict(
        text="PARTIAL. Machine-checked proof (Coq 8.16) of the lexical confinement logic: for every string, path.Clean('/'+s) (modelled as a stack over the '/'-separated elements) is rooted and has no empty, '.' or '..' element (C17_clean_rooted, C17_clean_no_dotdot); hence http.Dir(root).Open(name) names a path below root element by element (C17_dir_confined); StripPrefix removes exactly the prefix (C17_strip_prefix); every value of StaticFiles' file variable ends in '.'+allowed extension, using the declarative regex semantics (C17_ext_filter). The model of path.Clean is compared with Go's on generated strings. The property itself (no bytes from outside the root, extension filter) is decided by a direct oracle on a sandbox tree with files inside the root and secrets beside it (incl. a sibling directory whose name extends the root's name, directories named like allowed files): for StaticDir / StaticFiles / StaticFS / StaticFile every response body is identified with the file it equals.",
        note="PARTIAL: confinement is enforced by net/http (FileServer, http.Dir, ServeFile's own '..' check) and by the OS; the model re-implements their lexical logic and cannot see symlinks or OS path semantics; the response-level check is exploration (direct oracle), not proof. Trusted: Coq kernel, extraction, driver, harness.",
        technique="Coq proof of the lexical path logic (clean / join / strip prefix / extension regex) + direct sandbox oracle on the implementation"),
    n=dict(quick=8000, thorough=80000),
    consts=[],
    theorems=["C17_clean_rooted", "C17_clean_no_dotdot", "C17_dir_confined", "C17_strip_prefix", "C17_ext_filter"],
    rule="case = request path of 0..6 elements drawn from {.., ., empty, file and directory names inside and outside the root, %2e%2e, ..%2f, %2f, backslash, %00, trailing "
         "dot/space, names extending the root's name} under one of the four static handlers (StaticDir /static, StaticFiles /assets css|js, StaticFS /fs, StaticFile /one); a "
         "fifth of the cases compare path.Clean with the model. Observed: status and which on-disk file the body equals. Non-trivial = request with dot-dot or "
         "percent-encoded elements.",
    trusted_base=["modelled, not verified: path.Clean, http.Dir, http.StripPrefix, http.FileServer, http.ServeFile, the OS file system (sandbox tree created by the harness under the check's work directory)"],
    assumptions=["no symlinks in the served tree"],
)

PROPS["C18"] = dict(
    claim=dict(
        text="PARTIAL. Machine-checked proof (Coq 8.16) of the glue of binding.Auto: methods other than POST/PUT/PATCH bind from the query string whatever the Content-Type (C18_source_query); for each documented media type (url-encoded form, multipart form, JSON, application/xml, text/xml), with no parameters or ANY parameters, the transcribed dispatch (subtype test on the media type = the text before the first ';', trimmed) selects the documented source (C18_source_documented); parameters never influence the choice (C18_source_params_irrelevant); a Content-Type whose media type has none of the four subtypes is an error (C18_source_unknown); a successful bind implies the decoded struct passed validation whenever the validator is enabled (C18_validated); ASSUMING the codec law decode(encode x) = x, encoding a valid value and binding it back yields it (C18_roundtrip); a codec error is an error of the bind (C18_error). F20 (former K5; substring tests on the whole header value: application/jsonx and 'text/plain; a=/json' bound as JSON) was repaired in /repo (31720bd) and is kept as a refuted witness of the legacy dispatch (C18_legacy_F20_refuted). Tie to the code: method x Content-Type table with a different value in every source; round trips of generated struct values through JSON, XML, form, multipart and query; malformed bodies (error, never panic); validation on/off x valid/invalid.",
        note="PARTIAL: encoding/json, encoding/xml, formam, gookit/validate and net/http form parsing are third-party / standard-library code: Coq states their laws as hypotheses (section variables) and the harness only samples them. Trusted: Coq kernel, extraction, driver, harness.",
        technique="Coq proof of the source-selection table and the decode-then-validate glue (codecs as hypotheses) + sampled round-trip / malformed-input exploration"),
    theorems=["C18_source_query", "C18_source_documented", "C18_source_params_irrelevant", "C18_source_unknown", "C18_validated", "C18_roundtrip", "C18_error", "C18_legacy_F20_refuted"],
    n=dict(quick=5000, thorough=60000),
    consts=[],
    rule="cases: (a) method x Content-Type from a table of 20 (documented types with and without parameters, empty, unknown, near-miss types), every source carrying a "
         "different value so that the source used is observable; (b) round trip of generated struct values (ints, int64, strings with unicode / separators / markup / "
         "control characters, bools, string slices) through JSON, XML, url-encoded form, multipart form and query string; (c) malformed bodies (truncated, wrong "
         "types, invalid escapes, invalid UTF-8) per format: an error, never a panic; (d) struct with validation rules, valid/invalid x validator enabled/disabled. "
         "Non-trivial = body-method source case or a round trip.",
    trusted_base=["ASSUMED (section variables, sampled by the tie): encoding/json, encoding/xml, monoculum/formam, gookit/validate, net/http form parsing"],
    assumptions=["codec round-trip laws decode(encode v) = v are hypotheses of the round-trip theorem; the harness samples them"],
)

PROPS["C19"] = dict(
    claim=dict(
        text="PARTIAL. Machine-checked proof (Coq 8.16) over the writer model of C08: Text / HTML / JSONBytes / Blob commit the given positive status, set the documented (given) Content-Type and write exactly the bytes, for every short-write script (C19_blob); NoContent commits 204; HTTPError commits the status and writes msg+newline; the pkg/render renderers never override a Content-Type that is already set and set the documented one otherwise (C19_no_override, C19_sets_when_absent); with an arbitrary encoder, JSON commits the status, keeps a preset type, writes the encoding, and JSONP wraps it as callback(...); (C19_json, C19_jsonp); an encoding failure is recorded in the error list and nothing panics (C19_encode_error); render.Auto picks the renderer of the first supported type listed in Accept, text/plain for an empty list, an error when nothing is supported (C19_accept_first, C19_accept_none, C19_accept_empty). F10 is a refuted witness. Tie to the code: all helpers x statuses x values (HTML, unicode, control characters, nested maps, structs, byte slices, an unencodable value) x preset/absent Content-Type and 15 Accept headers; status, Content-Type at commit, body bytes or decodability back to the value, error count and Location are compared with the extracted model.",
        note="PARTIAL: encoding/json and encoding/xml are assumed (section variables); whether a value can be encoded is an oracle input of the model and decodability of the body is sampled by the harness. http.Error / http.Redirect and ParseAccept are modelled. Note: render.Auto treats text/html as supported but renders nothing for it (the model follows the code). Trusted: Coq kernel, extraction, driver, harness.",
        technique="Coq proof of status / content-type / negotiation logic over the writer model (encoders as parameters) + sampled decodability exploration"),
    theorems=["C19_blob", "C19_no_content", "C19_http_error", "C19_no_override", "C19_json", "C19_jsonp", "C19_encode_error", "C19_accept_first", "C19_accept_none", "C19_accept_empty"],
    n=dict(quick=6000, thorough=60000),
    consts=[],
    rule="cases: (a) helper in {Text, HTML, JSON, JSONBytes, JSONP, XML, Blob, Stream, NoContent, Redirect, HTTPError} x status in {200,201,202,400,404,500,0} x value "
         "(strings with HTML / unicode / control characters / quotes, nested maps, structs, byte slices, int slices, an unencodable value) x preset or absent "
         "Content-Type; (b) render.Auto with 15 Accept headers (empty, single, ordered lists, q parameters, unsupported types, stray commas). Observed: committed status, "
         "Content-Type at commit, body (bytes, or for JSON/JSONP/XML whether it decodes back to the value), number of recorded errors, Location. "
         "Non-trivial = case with a preset Content-Type or a negotiation case.",
    trusted_base=["ASSUMED (section variables; whether a value can be encoded is an oracle input, decodability is sampled by the tie): encoding/json, encoding/xml; modelled: net/http http.Error / http.Redirect, goutil httpreq.ParseAccept"],
    assumptions=["handlers reach the writer through the context helpers on a fresh response"],
)


def _race_stress(ctx):
    """C03 extra: build the harness with the race detector and run the concurrent stress; a data race whose stack is inside
    package rux, or a response that differs from the solo response, is a violation"""
    import glob, os
    wd, sh, env = ctx["wd"], ctx["sh"], dict(ctx["goenv"])
    env["CGO_ENABLED"] = "1"
    exe = os.path.join(wd, "ruxh-race")
    rc, out = sh(["go", "build", "-race", "-tags", "verif", "-o", exe, "./cmd/ruxh"], cwd=os.path.join(ctx["root"], "harness"), env=env, timeout=1200)
    if rc != 0:
        ctx["notes"].append("race build unavailable (%s): stress run without the race detector" % out.strip().splitlines()[-1:])
        exe = ctx["exe"]
    iters = "1500" if ctx["tier"] == "quick" else "40000"
    env["GORACE"] = "log_path=%s halt_on_error=0" % os.path.join(wd, "race")
    rc, out = sh([exe, "stress", "-seed", str(ctx["seed"]), "-iters", iters], cwd=wd, env=env, timeout=3000)
    ctx["stats"]["race_stress"] = out.strip()[-300:]
    reports = []
    for f in glob.glob(os.path.join(wd, "race.*")):
        txt = open(f, errors="replace").read()
        for blk in txt.split("=================="):
            if "DATA RACE" in blk and ("/repo/" in blk or "gookit/rux." in blk):
                reports.append(blk.strip())
    if reports:
        first = reports[0]
        where = [l.strip() for l in first.splitlines() if "/repo/" in l][:2]
        return dict(signature="data-race-in-router", text="%d race report(s); first at %s" % (len(reports), " / ".join(where)), case="(stress seed %s)" % ctx["seed"], impl=first[:3000])
    if rc == 3:
        return dict(signature="concurrent-response-differs-from-solo", text=out.strip()[-400:], case="(stress seed %s)" % ctx["seed"], impl=out.strip()[-400:])
    if rc != 0:
        return dict(signature="stress-run-failed", text=out.strip()[-400:], case="(stress)", impl=out[-1000:])
    return None

PROPS["C03"] = dict(
    claim=dict(
        text="PARTIAL. Machine-checked proof (Coq 8.16) over interleaving models of the state requests share: (A) for every router with a coherent cache, every family of request threads and EVERY schedule of their atomic cache actions (Get; later, after the pure dynamic match, Set - other requests in between), the cache stays coherent and each thread answers exactly what it answers alone on the cache-free router (C03_lookups_independent, C03_finished_thread_solo); (B) on a slice memory model where append writes into shared spare capacity, with the fresh-slice chain assembly of the current code every finished request ran exactly globals ++ its route middleware ++ its main handler, for every schedule, growth policy and globals slice (C03_chains_independent); (C) the context pool never holds a context twice nor one in use when every put releases a context in use (C03_pool); (D) no two accesses of different requests conflict except under the exclusive cache lock (C03_race_free, over footprint annotations of the request-time actions). The defects repaired in /repo (shared-capacity append F11, Get under RLock F12, router fields assigned during requests F13, double pool release F16) are kept as refuted witnesses against legacy variants of the models. Context.Copy (CopyCtx.v, after repair F23): on the slice heap, for every growth policy and every later sequence of Reset / AddError on the pooled context, a copy still reads the errors it was taken with (C03_copy_keeps_errors); before the repair it shared the backing array and read the next request's error (C03_legacy_F23_refuted). Tie to the code: a controlled scheduler runs 2..3 requests in goroutines whose handlers yield at every boundary and drives sampled (thorough: all short) schedules over router shapes with several Use calls, group/route middleware, tiny caches, 404/405/HEAD; every request's trace, parameters and response must equal its solo run on a fresh identical router; plus a race-detector stress run whose reports inside package rux are violations.",
        note="PARTIAL: the Go memory model below the model's action granularity, sync.Pool's and sync.RWMutex's own correctness and the completeness of the footprint annotations are not proved; the four models are separate (no single product simulation of the dispatcher); the race-detector run and the scheduler runs are exploration. Trusted: Coq kernel, harness (scheduler, race build), Go race detector.",
        technique="Coq proofs over interleaving models (schedule induction with coherence / heap / pool invariants, footprint case analysis) + controlled-scheduler differential runs + race-detector stress"),
    theorems=["C03_lookups_independent", "C03_finished_thread_solo", "C03_chains_independent", "C03_pool", "C03_race_free", "C03_copy_keeps_errors", "C03_legacy_F23_refuted"],
    n=dict(quick=600, thorough=6000),
    consts=[],
    extra=[("race-stress", _race_stress)],
    rule="case = router shape from the property's quantifier (0..4 global middleware added in one or several Use calls so that the slice has spare capacity, group and "
         "route middleware, 2..4 static/dynamic routes, cache off or capacity 0..2, 405 handling) x 2..3 requests (same route, different routes, 404, 405, HEAD) x a "
         "schedule of 4..40 scheduler decisions; every handler yields to the controlled scheduler at entry, around Next and at exit; each request's trace, parameters "
         "and response must equal those of the same request served alone on a fresh identical router. Plus a race-detector stress run (8 goroutines x mixed "
         "requests x 6 router shapes). Non-trivial = distinct case whose global middleware was added in several Use calls.",
    exhaustive_note="thorough additionally enumerates every schedule of length <= 6 for two requests (static + cached dynamic route) on a router with three Use calls",
    trusted_base=_RP_TRUSTED + ["NOT modelled: the Go memory model below the model's action granularity, sync.Pool's and sync.RWMutex's own correctness, completeness of the footprint annotations; the race detector run is exploration, not proof"],
    assumptions=["registration is finished before the first request"],
)


# ---------------------------------------------------------------- in-Coq replay (thorough tier): cross-check of the extraction path
def _sx(s):
    pos = 0
    def item():
        nonlocal pos
        while s[pos] in " \t": pos += 1
        if s[pos] == "(":
            pos += 1; xs = []
            while True:
                while s[pos] in " \t": pos += 1
                if s[pos] == ")":
                    pos += 1; return xs
                xs.append(item())
        st = pos
        while pos < len(s) and s[pos] not in " ()": pos += 1
        return s[st:pos]
    return item()

def _cstr(a):
    body = a[1:]
    if not body: return "([] : str)"
    return "([" + "; ".join(str(int(h, 16)) for h in body.split(".")) + "]%N : str)"
def _cbool(a): return "true" if a == "t" else "false"
def _clist(xs, ty=None): return "[" + "; ".join(xs) + "]" if xs else ("(@nil %s)" % ty if ty else "[]")
def _cz(a): return "(%s)%%Z" % a

def _replay_c11(case, model):
    c = _sx(case); m = _sx(model)
    if len(c) > 7: return None    # the "dyn" flavour (a dynamic route) is compared through the extracted model only
    inp = "c11_out %s %s %s %s %s %s" % (_cbool(c[1]), _cbool(c[2]), _clist([_cstr(g) for g in c[3]], "str"), _cstr(c[4]), _cstr(c[5]), _cstr(c[6]))
    if m == "panic" or m == ["panic"]: exp = "None"
    else: exp = "(Some (%s, %s, %s))" % (_cstr(m[0][1]), _cbool(m[1][1]), _cbool(m[2][1]))
    return "c11_eqb (%s) %s" % (inp, exp)

def _replay_c14(case, model):
    c = _sx(case)
    if c[0] != "c14": return None
    def op(o):
        if o[0] == "s": return "(OSet %s %s%%N)" % (_cstr(o[1]), o[2])
        return {"g": "(OGet %s)", "h": "(OHas %s)", "d": "(ODel %s)"}[o[0]] % _cstr(o[1]) if o[0] != "l" else "OLen"
    def res(r):
        if r == "u": return "RUnit"
        if r == "none": return "(RVal None)"
        if r in ("t", "f"): return "(RBool %s)" % _cbool(r)
        if r[0] == "v": return "(RVal (Some %s%%N))" % r[1]
        return "(RNat %s)" % r[1]
    m = _sx(model)
    exp = _clist(["(%s, %s)" % (res(x[0]), _clist([_cstr(k) for k in x[1]], "str")) for x in m], "(cres N * list str)")
    return "c14_eqb (c14_out %s %s) %s" % (c[1], _clist([op(o) for o in c[2]], "(cop N)"), exp)

def _replay_c08(case, model):
    c = _sx(case); m = _sx(model)
    def wop(o):
        k = o[0]
        if k == "st": return "(WSetStatus %s)" % _cz(o[1])
        if k == "hd": return "(WSetHeader %s %s)" % (_cstr(o[1]), _cstr(o[2]))
        if k == "wr": return "(WWrite %s)" % _cstr(o[1])
        if k == "fl": return "WFlush"
        if k == "he": return "(WHttpError %s %s)" % (_cstr(o[1]), _cz(o[2]))
        if k == "rd": return "(WRedirect %s %s)" % (_cstr(o[1]), _cz(o[2]))
        if k == "cp": return "(WWrite %s)" % _cstr(o[1])
        if k == "ab": return "(WSetStatus %s)" % _cz(o[1])
        if k == "ob": return "WObs"
        raise ValueError(k)
    hs = c[2]
    keep = lambda o: not (o[0] == "cp" and o[1] == "'")      # io.Copy of no data makes no call at all
    ops = [wop(o) for h in hs for o in h[0] if keep(o)] + [wop(o) for h in reversed(hs) for o in h[1] if keep(o)]
    def wev(e):
        if e[0] == "wh": return "(WH %s)" % _cz(e[1])
        if e[0] == "w": return "(W %s)" % _cstr(e[1])
        return "F"
    log = _clist([wev(e) for e in m[0][1:]], "wev")
    obs = _clist(["(%s, %s)" % (_cz(o[0]), _cz(o[1])) for o in m[1][1:]], "(Z * Z)")
    return "c08_eqb (c08_out %s %s) (%s, %s)" % (_clist(["%s%%nat" % n for n in c[1]], "nat"), _clist(ops, "wop"), log, obs)


def _cnat(a): return "%s%%nat" % int(a)
def _c_stmt(x):
    k = x[0]
    if k == "use": return "(SUse %s)" % _clist([_cnat(i) for i in x[1:]], "nat")
    if k == "group": return "(SGroup %s %s %s)" % (_cstr(x[1]), _clist([_cnat(i) for i in x[2]], "nat"), _clist([_c_stmt(y) for y in x[3]], "stmt"))
    if k == "route": return "(SRoute %s %s %s %s %s %s)" % (_clist([_cstr(m) for m in x[1]], "str"), _cstr(x[2]), _cnat(x[3]),
                                                             _clist([_cnat(i) for i in x[4]], "nat"), _clist([_cnat(i) for i in x[5]], "nat"), _cstr(x[6]))
    if k == "nf": return "(SNotFound %s)" % _clist([_cnat(i) for i in x[1:]], "nat")
    if k == "nal": return "(SNotAllowed %s)" % _clist([_cnat(i) for i in x[1:]], "nat")
    raise ValueError(k)
def _c_wop(o):
    k = o[0]
    if k == "st": return "(WSetStatus %s)" % _cz(o[1])
    if k == "hd": return "(WSetHeader %s %s)" % (_cstr(o[1]), _cstr(o[2]))
    if k == "wr": return "(WWrite %s)" % _cstr(o[1])
    if k == "fl": return "WFlush"
    if k == "he": return "(WHttpError %s %s)" % (_cstr(o[1]), _cz(o[2]))
    if k == "rd": return "(WRedirect %s %s)" % (_cstr(o[1]), _cz(o[2]))
    if k == "ob": return "WObs"
    raise ValueError(k)
def _c_hop(o):
    k = o[0]
    if k == "ev": return "(OEff (EEv %s))" % _cnat(o[1])
    if k == "next": return "ONext"
    if k in ("abort", "abortthen"): return "OAbort"
    if k == "abs": return "(OAbortStatus %s)" % _cz(o[1])
    if k == "isab": return "OIsAborted"
    if k == "panic": return "(OPanic %s)" % _cnat(o[1])
    if k == "w": return "(OEff (EW %s))" % _c_wop(o[1])
    if k == "sd": return "(OEff (ESetData %s %s))" % (_cstr(o[1]), _cnat(o[2]))
    if k == "ae": return "(OEff (EAddError %s))" % _cnat(o[1])
    if k == "sp": return "(OEff (ESetParam %s %s))" % (_cstr(o[1]), _cstr(o[2]))
    if k == "rr": return "(OEff EReplaceResp)"
    if k == "rq": return "(OEff EReplaceReq)"
    if k == "snap": return "(OEff ESnap)"
    raise ValueError(k)
def _c_wev(e):
    if e[0] == "wh": return "(WH %s)" % _cz(e[1])
    if e[0] == "w": return "(W %s)" % _cstr(e[1])
    return "F"

def _replay_c12(case, model):
    c = _sx(case); m = _sx(model)
    if c[0] != "rp": return None
    strict = any(o == ["strict"] for o in c[1])
    inp = "c12_out %s %s" % ("true" if strict else "false", _clist([_c_stmt(x) for x in c[2]], "stmt"))
    if m == ["regpanic"]: exp = "None"
    else:
        reg = m[0][1:]
        routes = _clist(["(%s, %s)" % (_cstr(r[1]), _cnat(r[2])) for r in reg if r[0] == "route"], "(str * nat)")
        sc = [r for r in reg if r[0] == "scope"][0]
        exp = "(Some (%s, (%s, %s, %s)))" % (routes, _cstr(sc[1]), _cnat(sc[2]), _cnat(sc[3]))
    return "c12_eqb (%s) %s" % (inp, exp)

def _replay_c04(case, model):
    c = _sx(case); m = _sx(model)
    if c[0] != "rp": return None
    for o in c[1]:
        if o not in (["strict"], ["na"]): return None
    strict = any(o == ["strict"] for o in c[1]); na = any(o == ["na"] for o in c[1])
    hs = _clist(["(%s, (%s : hprog))" % (_cnat(h[0]), _clist([_c_hop(o) for o in h[1]], "hop")) for h in c[3]], "(nat * hprog)")
    reqs = _clist(["(%s, %s, %s)" % (_cstr(r[0]), _cstr(r[1]), _clist([_cnat(n) for n in r[2]], "nat")) for r in c[4]], "(str * str * list nat)")
    inp = "c04_out %s %s %s %s %s" % ("true" if strict else "false", "true" if na else "false", _clist([_c_stmt(x) for x in c[2]], "stmt"), hs, reqs)
    if m == ["regpanic"]: exp = "None"
    else:
        outs = []
        for rq in m[1][1:]:
            tr = [x for x in rq[1][1:]]; lg = rq[2][1:]
            if rq[3][1] == "fuel": return None
            evs = _clist([_cnat(x[1]) for x in tr if x[0] == "e"], "nat")
            outs.append("(Some (%s, %s))" % (evs, _clist([_c_wev(e) for e in lg], "wev")))
        exp = "(Some %s)" % _clist(outs, "(option (list nat * list wev))")
    return "c04_eqb (%s) %s" % (inp, exp)

REPLAYERS = {"C11": _replay_c11, "C14": _replay_c14, "C08": _replay_c08, "C12": _replay_c12, "C04": _replay_c04}


def coq_replay(ctx):
    """evaluates a sample of the run's cases inside Coq (vm_compute) and compares with the extracted model's output"""
    pid = ctx["pid"]
    f = REPLAYERS.get(pid)
    if not f: return {}
    terms = []
    for r in ctx["results"]:
        if r["model"].startswith("(unsupported") or r["model"].startswith("(judge-only") or r["model"].startswith("(error"): continue
        try:
            t = f(r["case"], r["model"])
        except Exception:
            t = None
        if t: terms.append(t)
        if len(terms) >= 300: break
    if not terms: return {}
    path = os.path.join(ctx["wd"], "ReplayCases.v")
    with open(path, "w") as fo:
        fo.write("From Rux Require Import Base Str Norm Cache Writer Chain Dispatch Reg Table Sys Replay Replay2.\nOpen Scope Z_scope.\n")
        fo.write("Definition results : list bool := [\n  " + ";\n  ".join(terms) + "\n].\n")
        fo.write("Definition bad := Eval vm_compute in count_false results.\nPrint bad.\n")
    t0 = time.time()
    rc, out = ctx["sh"](["coqc", "-Q", ctx["coq"], "Rux", "-o", os.path.join(ctx["wd"], "ReplayCases.vo"), path], timeout=1800)
    m = re.search(r"bad\s*=\s*(\d+)", out)
    if rc != 0 or not m:
        return {"problem": "in-Coq replay failed: " + out[-600:]}
    if int(m.group(1)) != 0:
        return {"problem": "in-Coq replay: %s of %d sampled cases evaluate differently inside Coq (vm_compute) than in the extracted OCaml model" % (m.group(1), len(terms))}
    return {"coverage": {"coq_replay": "%d sampled cases re-evaluated with vm_compute inside Coq: all equal to the extracted model's output (%.0fs)" % (len(terms), time.time() - t0)}}
